//! Stand-in for `std` inside the `refmod` crate: `std::sync::*` resolves to shuttle's
//! scheduler-controlled primitives, so the unmodified /repo/src/reference.rs is compiled
//! against them.
pub mod sync {
    pub use shuttle::sync::*;
}
