//! The *unmodified* file /repo/src/reference.rs compiled as a module of a `no_std` crate in
//! which the name `std` denotes the shim (shuttle::sync), and `crate::*` provides exactly the
//! names the file takes from rrtk's crate root. If a future edit makes reference.rs depend on
//! further crate-root names this crate stops compiling: a machinery failure, never a verdict.
#![no_std]
#![allow(unused_imports, dead_code)]
extern crate alloc;
extern crate verif_std_shim as std;
pub use alloc::rc::Rc;
pub use alloc::sync::Arc;
pub use core::cell::RefCell;
pub use core::marker::PhantomData;
pub use core::ops::{Deref, DerefMut};
pub use std::sync::{Mutex, RwLock};
#[path = "/repo/src/reference.rs"]
pub mod reference;
pub use reference::Reference;
