//! C17 thread clause: exhaustive schedule enumeration (shuttle DFS, unbounded) of small
//! multi-threaded harnesses over the real src/reference.rs compiled against shuttle's
//! Mutex/RwLock (see ../refmod).
//!   explore run <quick|thorough>          -> one JSON line per (body, variant)
//!   explore replay <body> <variant> <schedule string>
use refmod::reference::Reference;
use shuttle::scheduler::DfsScheduler;
use shuttle::sync::{Mutex, RwLock};
use shuttle::{thread, Config, Runner};
use std::panic::{catch_unwind, AssertUnwindSafe};
use std::sync::atomic::{AtomicU64, Ordering};
use std::sync::Arc;

#[derive(Clone, Copy, Debug, PartialEq)]
enum Variant {
    ArcMutex,
    ArcRwLock,
    PtrMutex,
    PtrRwLock,
}
const VARIANTS: [Variant; 4] = [Variant::ArcMutex, Variant::ArcRwLock, Variant::PtrMutex, Variant::PtrRwLock];

#[derive(Clone, Copy)]
struct SendPtr(usize);
unsafe impl Send for SendPtr {}

/// What every thread needs to build its *own* Reference over the one shared object.
#[derive(Clone)]
enum Shared {
    M(Arc<Mutex<u32>>),
    R(Arc<RwLock<u32>>),
    PM(SendPtr),
    PR(SendPtr),
}
impl Shared {
    fn new(v: Variant) -> Shared {
        match v {
            Variant::ArcMutex => Shared::M(Arc::new(Mutex::new(0))),
            Variant::ArcRwLock => Shared::R(Arc::new(RwLock::new(0))),
            Variant::PtrMutex => Shared::PM(SendPtr(Box::into_raw(Box::new(Mutex::new(0u32))) as usize)),
            Variant::PtrRwLock => Shared::PR(SendPtr(Box::into_raw(Box::new(RwLock::new(0u32))) as usize)),
        }
    }
    fn reference(&self) -> Reference<u32> {
        match self {
            Shared::M(a) => Reference::from_arc_mutex(a.clone()),
            Shared::R(a) => Reference::from_arc_rw_lock(a.clone()),
            Shared::PM(p) => unsafe { Reference::from_ptr_mutex(p.0 as *const Mutex<u32>) },
            Shared::PR(p) => unsafe { Reference::from_ptr_rw_lock(p.0 as *const RwLock<u32>) },
        }
    }
    fn free(self) {
        match self {
            Shared::PM(p) => unsafe { drop(Box::from_raw(p.0 as *mut Mutex<u32>)) },
            Shared::PR(p) => unsafe { drop(Box::from_raw(p.0 as *mut RwLock<u32>)) },
            _ => {}
        }
    }
}

fn increment(r: &Reference<u32>) {
    let mut g = r.borrow_mut();
    let v = *g;
    // a scheduling point *inside* the borrow: if the borrow does not hold the lock for its
    // whole lifetime another thread's increment can slip in here and be lost
    thread::yield_now();
    *g = v + 1;
}

/// threads x increments each, optional reader thread, optional use of clones inside a thread
fn body(v: Variant, threads: usize, incs: usize, reader: bool, use_clone: bool) {
    let shared = Shared::new(v);
    let mut hs = Vec::new();
    for _ in 0..threads {
        let s = shared.clone();
        hs.push(thread::spawn(move || {
            let r = s.reference();
            for i in 0..incs {
                if use_clone && i % 2 == 1 {
                    let c = r.clone();
                    increment(&c);
                } else {
                    increment(&r);
                }
            }
        }));
    }
    let total = (threads * incs) as u32;
    if reader {
        let s = shared.clone();
        hs.push(thread::spawn(move || {
            let r = s.reference();
            let a = *r.borrow();
            thread::yield_now();
            let b = *r.borrow();
            assert!(a <= b && b <= total, "reader saw {} then {} (total {})", a, b, total);
        }));
    }
    for h in hs {
        h.join().unwrap();
    }
    let r = shared.reference();
    let fin = *r.borrow();
    assert_eq!(fin, total, "lost update: final counter {} after {} increments", fin, total);
    drop(r);
    shared.free();
}

struct BodySpec {
    name: &'static str,
    threads: usize,
    incs: usize,
    reader: bool,
    use_clone: bool,
}
fn bodies(thorough: bool) -> Vec<BodySpec> {
    let mut v = vec![
        BodySpec { name: "2-threads-x-1-increment", threads: 2, incs: 1, reader: false, use_clone: false },
        BodySpec { name: "2-threads-x-2-increments", threads: 2, incs: 2, reader: false, use_clone: true },
        BodySpec { name: "3-threads-x-1-increment", threads: 3, incs: 1, reader: false, use_clone: false },
        BodySpec { name: "2-threads-x-1-increment-plus-reader", threads: 2, incs: 1, reader: true, use_clone: false },
    ];
    if thorough {
        v.push(BodySpec { name: "2-threads-x-3-increments", threads: 2, incs: 3, reader: false, use_clone: true });
        v.push(BodySpec { name: "3-threads-x-2-increments", threads: 3, incs: 2, reader: false, use_clone: true });
        v.push(BodySpec { name: "2-threads-x-2-increments-plus-reader", threads: 2, incs: 2, reader: true, use_clone: true });
        v.push(BodySpec { name: "4-threads-x-1-increment", threads: 4, incs: 1, reader: false, use_clone: false });
    }
    v
}

static EXECUTIONS: AtomicU64 = AtomicU64::new(0);

fn esc(s: &str) -> String {
    s.replace('\\', "\\\\").replace('"', "\\\"").replace('\n', "\\n")
}

fn main() {
    let args: Vec<String> = std::env::args().collect();
    if args.len() >= 5 && args[1] == "replay" {
        let b = bodies(true).into_iter().find(|b| b.name == args[2]).expect("unknown body");
        let v = VARIANTS.iter().cloned().find(|v| format!("{:?}", v) == args[3]).expect("unknown variant");
        shuttle::replay(move || body(v, b.threads, b.incs, b.reader, b.use_clone), &args[4]);
        println!("replay finished without failure");
        return;
    }
    let thorough = args.get(2).map(|s| s == "thorough").unwrap_or(false);
    let cap: Option<usize> = std::env::var("VERIF_SCHEDULE_CAP").ok().and_then(|s| s.parse().ok());
    let only_body = args.get(3).cloned();
    let only_variant = args.get(4).cloned();
    if args.get(1).map(|s| s == "list").unwrap_or(false) {
        for b in bodies(thorough) {
            for v in VARIANTS {
                println!("{} {:?}", b.name, v);
            }
        }
        return;
    }
    for b in bodies(thorough) {
        for v in VARIANTS {
            if only_body.as_deref().map(|x| x != b.name).unwrap_or(false) || only_variant.as_deref().map(|x| x != format!("{:?}", v)).unwrap_or(false) {
                continue;
            }
            EXECUTIONS.store(0, Ordering::SeqCst);
            let t0 = std::time::Instant::now();
            let (threads, incs, reader, use_clone) = (b.threads, b.incs, b.reader, b.use_clone);
            let res = catch_unwind(AssertUnwindSafe(|| {
                let mut cfg = Config::new();
                cfg.failure_persistence = shuttle::FailurePersistence::Print;
                let runner = Runner::new(DfsScheduler::new(cap, false), cfg);
                runner.run(move || {
                    EXECUTIONS.fetch_add(1, Ordering::Relaxed);
                    body(v, threads, incs, reader, use_clone)
                })
            }));
            let n = EXECUTIONS.load(Ordering::SeqCst);
            let (status, msg) = match res {
                Ok(_) => ("ok", String::new()),
                Err(p) => (
                    "fail",
                    p.downcast_ref::<String>().cloned().or_else(|| p.downcast_ref::<&str>().map(|s| s.to_string())).unwrap_or_else(|| "<panic>".into()),
                ),
            };
            println!(
                "{{\"body\":\"{}\",\"variant\":\"{:?}\",\"schedules\":{},\"capped\":{},\"status\":\"{}\",\"message\":\"{}\",\"secs\":{:.2}}}",
                b.name,
                v,
                n,
                cap.map(|c| n as usize >= c).unwrap_or(false),
                status,
                esc(&msg),
                t0.elapsed().as_secs_f64()
            );
        }
    }
}
