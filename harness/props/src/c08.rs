use crate::mc::Eng;
use crate::Ctx;
pub fn run(_ctx: &Ctx, _second: bool) -> Vec<Eng> {
    vec![]
}

pub fn run_time_mode(_ctx: &Ctx) -> Vec<Eng> {
    vec![]
}
