//! C08 — device update projects measured states onto the mechanical constraint.
//! C13 — one-degree-of-freedom devices relay the newest command to every terminal, scaled.
//! (C03 re-uses both engines with only the timestamp verdicts.)
use crate::env::*;
use crate::mc::*;
use crate::refmodels::*;
use crate::Ctx;
use rrtk::devices::*;
use rrtk::*;
use std::cell::RefCell;

pub type Term<'a> = RefCell<Terminal<'a, E>>;

pub trait DevIf<'a> {
    fn term(&self, i: usize) -> &'a Term<'a>;
    fn upd(&mut self) -> NothingOrError<E>;
}
impl<'a> DevIf<'a> for Invert<'a, E> {
    fn term(&self, i: usize) -> &'a Term<'a> {
        if i == 0 {
            self.get_terminal_1()
        } else {
            self.get_terminal_2()
        }
    }
    fn upd(&mut self) -> NothingOrError<E> {
        self.update()
    }
}
impl<'a> DevIf<'a> for GearTrain<'a, E> {
    fn term(&self, i: usize) -> &'a Term<'a> {
        if i == 0 {
            self.get_terminal_1()
        } else {
            self.get_terminal_2()
        }
    }
    fn upd(&mut self) -> NothingOrError<E> {
        self.update()
    }
}
impl<'a, const N: usize> DevIf<'a> for Axle<'a, N, E> {
    fn term(&self, i: usize) -> &'a Term<'a> {
        self.get_terminal(i)
    }
    fn upd(&mut self) -> NothingOrError<E> {
        self.update()
    }
}
impl<'a> DevIf<'a> for Differential<'a, E> {
    fn term(&self, i: usize) -> &'a Term<'a> {
        match i {
            0 => self.get_side_1(),
            1 => self.get_side_2(),
            _ => self.get_sum(),
        }
    }
    fn upd(&mut self) -> NothingOrError<E> {
        self.update()
    }
}

#[derive(Clone, Copy, Debug, PartialEq)]
pub enum Kind {
    Invert,
    Gear(f32),
    GearQ(f32), // constructed through with_ratio(Quantity)
    Axle(usize),
    Diff(u8), // 0 = distrust side1, 1 = side2, 2 = sum, 3 = equal
}
impl Kind {
    pub fn n(&self) -> usize {
        match self {
            Kind::Invert | Kind::Gear(_) | Kind::GearQ(_) => 2,
            Kind::Axle(n) => *n,
            Kind::Diff(_) => 3,
        }
    }
    fn name(&self) -> String {
        match self {
            Kind::Invert => "invert".into(),
            Kind::Gear(_) | Kind::GearQ(_) => "gear".into(),
            Kind::Axle(_) => "axle".into(),
            Kind::Diff(m) => format!("differential-{}", ["distrust-side1", "distrust-side2", "distrust-sum", "equal"][*m as usize]),
        }
    }
}
pub fn make_dev<'a>(k: Kind) -> Box<dyn DevIf<'a> + 'a> {
    match k {
        Kind::Invert => Box::new(Invert::new()),
        Kind::Gear(r) => Box::new(GearTrain::with_ratio_raw(r)),
        Kind::GearQ(r) => Box::new(GearTrain::with_ratio(Quantity::dimensionless(r))),
        Kind::Axle(0) => Box::new(Axle::<0, E>::new()),
        Kind::Axle(1) => Box::new(Axle::<1, E>::new()),
        Kind::Axle(2) => Box::new(Axle::<2, E>::new()),
        Kind::Axle(3) => Box::new(Axle::<3, E>::new()),
        Kind::Axle(4) => Box::new(Axle::<4, E>::new()),
        Kind::Axle(5) => Box::new(Axle::<5, E>::new()),
        Kind::Axle(6) => Box::new(Axle::<6, E>::new()),
        Kind::Axle(_) => unreachable!(),
        Kind::Diff(0) => Box::new(Differential::with_distrust(DifferentialDistrust::Side1)),
        Kind::Diff(1) => Box::new(Differential::with_distrust(DifferentialDistrust::Side2)),
        Kind::Diff(2) => Box::new(Differential::with_distrust(DifferentialDistrust::Sum)),
        Kind::Diff(_) => Box::new(Differential::new()),
    }
}

#[derive(Clone, Copy, PartialEq, Debug)]
pub enum Mode {
    State,
    Command,
}
const SA: State = State { position: 1.0, velocity: -2.0, acceleration: 0.5 };
const SB: State = State { position: -6.0, velocity: 3.0, acceleration: 8.0 };
const CA: Command = Command::Velocity(3.0);
const CB: Command = Command::Position(-5.0);

/// per-terminal option of a round: 0 nothing; 1 A newest (distinct per terminal); 2 B newest;
/// 3 A at the round's shared time (ties); 4 B older than the previous round
pub const NOPT: usize = 5;
/// base time of round 0; the default makes the rounds cross zero; the "large" pass uses 1.5e9 ns,
/// where consecutive timestamps differ by less than one f32 ulp of their magnitude (a comparison
/// done in f32 seconds instead of i64 nanoseconds would see them as equal)
/// command environment of the state engines: 0 = no commands; 1 / 2 = a command far newer than
/// every state sits on side 1 / side 2 (it must not influence the states or their timestamps)
pub static CMD_ENV: std::sync::atomic::AtomicU8 = std::sync::atomic::AtomicU8::new(0);
/// Cross-kind environment (both engines): data of the *other* kind - commands while states are
/// judged, states while commands are judged - are present at some terminals. A device handles the
/// two kinds in one update() and a terminal hands both out in one combined read, so code that
/// confuses their presence or their timestamps only shows when both are there, with different
/// times. Code 0 = none; otherwise (code - 1) = where + 3 * (time class + 4 * every_round):
/// where: 0 = terminal 0, 1 = the last terminal, 2 = all terminals; time class: 0 = 1e9+7 ns (far
/// newer than everything), 1 = older than everything of the round, 2 = the round's shared time,
/// 3 = newer than everything of the round; written once before round 0 or again before every round.
thread_local! {
    pub static XENV: std::cell::Cell<u32> = std::cell::Cell::new(0);
    /// consistent-values mode of the state engine: whatever option a terminal gets, the state
    /// written to it is that terminal's member of a tuple that already satisfies the device's
    /// constraint exactly ((X, -X); (X, ratio*X); all X; (X, Y, X+Y)), so rounds differ only in
    /// presence and timestamps. "Already consistent" is the natural place for a shortcut that
    /// skips the projection - and with it the restamping with the newest contributing time.
    pub static CONSISTENT: std::cell::Cell<bool> = std::cell::Cell::new(false);
    /// zero-payload mode: every written state is (0, 0, 0) and the two commands are Position(0) and
    /// Velocity(0) - payloads that coincide with what placeholder / sentinel data look like
    pub static ZERO: std::cell::Cell<u8> = std::cell::Cell::new(0);
}
fn cmd_for(is_a: bool) -> Command {
    match ZERO.with(|c| c.get()) {
        0 => {}
        1 => return if is_a { Command::Position(0.0) } else { Command::Velocity(0.0) },
        2 => return if is_a { Command::Velocity(0.0) } else { Command::Position(0.0) },
        _ => return if is_a { Command::Acceleration(0.0) } else { Command::Position(-0.0) },
    }
    if is_a { CA } else { CB }
}
fn state_for(kind: Kind, i: usize, is_a: bool) -> State {
    if ZERO.with(|c| c.get()) != 0 {
        return State::new_raw(0.0, 0.0, 0.0);
    }
    if !CONSISTENT.with(|c| c.get()) {
        return if is_a { SA } else { SB };
    }
    let (x, y) = (SA, SB);
    match kind {
        Kind::Invert => if i == 0 { x } else { -x },
        Kind::Gear(r) | Kind::GearQ(r) => if i == 0 { x } else { x * r },
        Kind::Axle(_) => x,
        Kind::Diff(_) => match i {
            0 => x,
            1 => y,
            _ => x + y,
        },
    }
}
pub const XENV_CODES: u32 = 24;
fn xenv() -> Option<(usize, usize, bool)> {
    let c = XENV.with(|x| x.get());
    if c == 0 {
        return None;
    }
    let c = (c - 1) as usize;
    Some((c % 3, (c / 3) % 4, c / 12 == 1))
}
fn xenv_show() -> String {
    match xenv() {
        None => String::new(),
        Some((w, t, every)) => format!(
            " [other-kind data present: at {}, stamped {}, written {}]",
            ["terminal 0", "the last terminal", "all terminals"][w],
            ["1e9+7 ns", "round base - 40", "the round's shared time", "round base + 9"][t],
            if every { "before every round" } else { "once before round 0" }
        ),
    }
}
fn xenv_apply<'a>(dev: &dyn DevIf<'a>, xs: &'a [Term<'a>], n: usize, mask: u32, k: usize, mode: Mode) {
    if let Some((w, tc, every)) = xenv() {
        if k > 0 && !every {
            return;
        }
        let base = TIME_BASE.load(std::sync::atomic::Ordering::Relaxed) + 10 * k as i64;
        let t = Time(match tc {
            0 => 1_000_000_007,
            1 => split_time(base - 40),
            2 => split_time(base),
            _ => split_time(base + 9),
        });
        for i in 0..n {
            let sel = match w {
                0 => i == 0,
                1 => i == n - 1,
                _ => true,
            };
            if !sel {
                continue;
            }
            let target: &Term = if mask >> i & 1 == 1 { &xs[i] } else { dev.term(i) };
            match mode {
                Mode::State => target.borrow_mut().set(Datum::new(t, CA)).unwrap(),
                Mode::Command => target.borrow_mut().set(Datum::new(t, SB)).unwrap(),
            }
        }
    }
}
pub static TIME_BASE: std::sync::atomic::AtomicI64 = std::sync::atomic::AtomicI64::new(-25);
/// "split" pass: the (small) logical times are mapped order-preservingly onto the two ends of the
/// i64 range — everything up to round 0's shared time sits just above i64::MIN, everything newer
/// just below i64::MAX — so that the timestamps met in one update are further apart than i64::MAX
pub static TIME_SPLIT: std::sync::atomic::AtomicBool = std::sync::atomic::AtomicBool::new(false);
fn split_time(lt: i64) -> i64 {
    if !TIME_SPLIT.load(std::sync::atomic::Ordering::Relaxed) {
        return lt;
    }
    assert!((-37..=1000).contains(&lt), "split_time: logical time out of range");
    if lt <= -25 {
        // the oldest logical time in use (round 0's "older than the previous round", -37) is i64::MIN itself
        i64::MIN + (lt + 37)
    } else {
        i64::MAX - (1000 - lt)
    }
}
fn opt_time(round: usize, term: usize, opt: usize) -> i64 {
    let base = TIME_BASE.load(std::sync::atomic::Ordering::Relaxed) + 10 * round as i64;
    split_time(match opt {
        1 | 2 | 5 => base + 1 + term as i64,
        3 | 6 => base,
        _ => base - 12,
    })
}
/// options 5 and 6 (thorough tier): A newest / B at the shared time written *directly into the
/// device terminal* even when it is connected to an external terminal
pub const NOPT_DIRECT: usize = 7;
fn opt_is_a(opt: usize) -> bool {
    opt == 1 || opt == 3 || opt == 5
}
fn opt_show(mode: Mode, round: usize, term: usize, opt: usize) -> String {
    if opt == 0 {
        return "-".into();
    }
    let what = match (mode, opt) {
        (Mode::State, o) if opt_is_a(o) => "sA",
        (Mode::State, _) => "sB",
        (Mode::Command, o) if opt_is_a(o) => "cA",
        (Mode::Command, _) => "cB",
    };
    format!("{}{}@{}", what, if opt >= 5 { "(direct)" } else { "" }, opt_time(round, term, opt))
}

#[derive(Clone, Debug, Default, PartialEq, Eq, Hash)]
pub struct RoundObs {
    reads_before: Vec<Obs>,
    own_before: Vec<Obs>,
    own_after: Vec<Obs>,
    reads_after: Vec<Obs>,
    ext_own_before: Vec<Obs>,
    ext_own_after: Vec<Obs>,
    ext_reads_after: Vec<Obs>,
    upd: u32,
}

fn read_s(t: &Term) -> Obs {
    obs(&<Terminal<E> as Getter<State, E>>::get(&t.borrow()))
}
fn read_c(t: &Term) -> Obs {
    obs(&<Terminal<E> as Getter<Command, E>>::get(&t.borrow()))
}
fn own_s(t: &Term) -> Obs {
    obs::<State>(&Ok(<Terminal<E> as Settable<Datum<State>, E>>::get_last_request(&t.borrow())))
}
fn own_c(t: &Term) -> Obs {
    obs::<Command>(&Ok(<Terminal<E> as Settable<Datum<Command>, E>>::get_last_request(&t.borrow())))
}

/// Execute a sequence of rounds on a real device. `mask` says which device terminals are
/// connected to an external terminal (data then enters through the external one).
pub fn run_rounds(kind: Kind, mask: u32, rounds: &[Vec<usize>], mode: Mode) -> Vec<RoundObs> {
    let n = kind.n();
    let xs: Vec<Term> = (0..n).map(|_| Terminal::new()).collect();
    let mut dev = make_dev(kind);
    for i in 0..n {
        if mask >> i & 1 == 1 {
            connect(dev.term(i), &xs[i]);
        }
    }
    let cmd_env = CMD_ENV.load(std::sync::atomic::Ordering::Relaxed) as usize;
    if mode == Mode::State && cmd_env >= 1 && cmd_env <= n {
        let i = cmd_env - 1;
        let target: &Term = if mask >> i & 1 == 1 { &xs[i] } else { dev.term(i) };
        target.borrow_mut().set(Datum::new(Time(1_000_000_007), CA)).unwrap();
    }
    let mut out = Vec::with_capacity(rounds.len());
    for (k, opts) in rounds.iter().enumerate() {
        xenv_apply(&*dev, &xs, n, mask, k, mode);
        for i in 0..n {
            let o = opts[i];
            if o == 0 {
                continue;
            }
            let target: &Term = if mask >> i & 1 == 1 && o < 5 { &xs[i] } else { dev.term(i) };
            let t = Time(opt_time(k, i, o));
            match mode {
                Mode::State => target.borrow_mut().set(Datum::new(t, state_for(kind, i, opt_is_a(o)))).unwrap(),
                Mode::Command => target.borrow_mut().set(Datum::new(t, cmd_for(opt_is_a(o)))).unwrap(),
            }
        }
        let rd = |t: &Term| if mode == Mode::State { read_s(t) } else { read_c(t) };
        let ow = |t: &Term| if mode == Mode::State { own_s(t) } else { own_c(t) };
        let mut ro = RoundObs::default();
        for i in 0..n {
            ro.reads_before.push(rd(dev.term(i)));
            ro.own_before.push(ow(dev.term(i)));
            ro.ext_own_before.push(ow(&xs[i]));
        }
        ro.upd = obs_unit(&dev.upd());
        for i in 0..n {
            ro.own_after.push(ow(dev.term(i)));
            ro.reads_after.push(rd(dev.term(i)));
            ro.ext_own_after.push(ow(&xs[i]));
            ro.ext_reads_after.push(rd(&xs[i]));
        }
        out.push(ro);
    }
    out
}

/// Two devices alive at once (each with its own external terminals), their round sequences
/// executed in lockstep (A's round k, then B's round k); returns both observation sequences, which
/// must equal what each device yields alone (`run_rounds`): state shared between device instances
/// - a static cache, a module-level scratch value - breaks this.
pub fn run_rounds_twin(ka: Kind, ma: u32, ra: &[Vec<usize>], kb: Kind, mb: u32, rb: &[Vec<usize>], mode: Mode) -> (Vec<RoundObs>, Vec<RoundObs>) {
    macro_rules! setup {
        ($kind:expr, $mask:expr, $xs:ident, $dev:ident) => {
            let $xs: Vec<Term> = (0..$kind.n()).map(|_| Terminal::new()).collect();
            let mut $dev = make_dev($kind);
            for i in 0..$kind.n() {
                if $mask >> i & 1 == 1 {
                    connect($dev.term(i), &$xs[i]);
                }
            }
        };
    }
    macro_rules! step {
        ($kind:expr, $mask:expr, $xs:ident, $dev:ident, $k:expr, $opts:expr) => {{
            let n = $kind.n();
            for i in 0..n {
                let o = $opts[i];
                if o == 0 {
                    continue;
                }
                let target: &Term = if $mask >> i & 1 == 1 && o < 5 { &$xs[i] } else { $dev.term(i) };
                let t = Time(opt_time($k, i, o));
                match mode {
                    Mode::State => target.borrow_mut().set(Datum::new(t, if opt_is_a(o) { SA } else { SB })).unwrap(),
                    Mode::Command => target.borrow_mut().set(Datum::new(t, if opt_is_a(o) { CA } else { CB })).unwrap(),
                }
            }
            let rd = |t: &Term| if mode == Mode::State { read_s(t) } else { read_c(t) };
            let ow = |t: &Term| if mode == Mode::State { own_s(t) } else { own_c(t) };
            let mut ro = RoundObs::default();
            for i in 0..n {
                ro.reads_before.push(rd($dev.term(i)));
                ro.own_before.push(ow($dev.term(i)));
                ro.ext_own_before.push(ow(&$xs[i]));
            }
            ro.upd = obs_unit(&$dev.upd());
            for i in 0..n {
                ro.own_after.push(ow($dev.term(i)));
                ro.reads_after.push(rd($dev.term(i)));
                ro.ext_own_after.push(ow(&$xs[i]));
                ro.ext_reads_after.push(rd(&$xs[i]));
            }
            ro
        }};
    }
    setup!(ka, ma, xa, da);
    setup!(kb, mb, xb, db);
    let (mut oa, mut ob) = (Vec::new(), Vec::new());
    for k in 0..ra.len().max(rb.len()) {
        if k < ra.len() {
            oa.push(step!(ka, ma, xa, da, k, ra[k]));
        }
        if k < rb.len() {
            ob.push(step!(kb, mb, xb, db, k, rb[k]));
        }
    }
    (oa, ob)
}

/// every round sequence of `depth` rounds of device A against each of a few partner sequences of
/// device B (and with the roles swapped), run in lockstep vs. alone
fn explore_twins(e: &mut Eng, ka: Kind, kb: Kind, depth: usize, mode: Mode, budget: Budget) {
    for swap in [false, true] {
        let (kf, kp) = if swap { (kb, ka) } else { (ka, kb) }; // kf: fully enumerated, kp: partner
        let (nf, np) = (kf.n(), kp.n());
        let pf = ipow(NOPT as u64, nf);
        let tf = ipow(pf, depth);
        // partner rounds: the same option on every terminal, per round
        let partner_seqs: Vec<Vec<Vec<usize>>> = [[1usize, 2], [2, 1], [3, 3], [1, 0], [4, 2], [2, 2]].iter().map(|p| (0..depth).map(|k| vec![p[k % 2]; np]).collect()).collect();
        let partner_seqs = &partner_seqs;
        let (maskf, maskp) = ((1u32 << nf) - 1, 0u32);
        par(e, tf * partner_seqs.len() as u64, 64, budget, |idx, e| {
            let (ia, ip) = (idx / partner_seqs.len() as u64, (idx % partner_seqs.len() as u64) as usize);
            let mut codes = vec![0usize; depth];
            decode(ia, pf, &mut codes);
            let rf: Vec<Vec<usize>> = codes.iter().map(|&x| { let mut o = vec![0usize; nf]; decode(x as u64, NOPT as u64, &mut o); o }).collect();
            let rp = &partner_seqs[ip];
            e.executions += 1;
            e.states += 1;
            e.transitions += 2 * depth as u64;
            e.checks += 2;
            e.nontrivial += 1;
            // lockstep order: the partner goes first when swapped
            let r = guard(|| {
                let solo_f = run_rounds(kf, maskf, &rf, mode);
                let solo_p = run_rounds(kp, maskp, rp, mode);
                let (tf_, tp_) = if swap {
                    let (p, f) = run_rounds_twin(kp, maskp, rp, kf, maskf, &rf, mode);
                    (f, p)
                } else {
                    run_rounds_twin(kf, maskf, &rf, kp, maskp, rp, mode)
                };
                (solo_f == tf_, solo_p == tp_)
            });
            let show = |rounds: &[Vec<usize>], n: usize| rounds.iter().enumerate().map(|(k, r)| format!("({})", (0..n).map(|i| opt_show(mode, k, i, r[i])).collect::<Vec<_>>().join(" "))).collect::<Vec<_>>().join("; ");
            match r {
                Ok((true, true)) => e.outcome(h64(&(ia, ip, swap))),
                Ok(_) => e.violation(&format!("device:{}:instances-interfere", kf.name()), depth, || format!("{:?} (all terminals connected) with rounds [{}] and {:?} (unconnected) with rounds [{}] run in lockstep ({} first) do not behave as each does alone ({:?} mode)", kf, show(&rf, nf), kp, show(rp, np), if swap { "the second" } else { "the first" }, mode)),
                Err(m) => e.violation(&format!("device:{}:twins-panic", kf.name()), depth, || format!("{:?} / {:?} in lockstep panicked: {}", kf, kp, m)),
            }
        });
    }
}

#[derive(Clone, Copy)]
enum Want {
    Unchanged,
    Val(i64, [Tr; 3]),
}
fn trs(o: &Obs) -> [Tr; 3] {
    [Tr::exact(o.f(0)), Tr::exact(o.f(1)), Tr::exact(o.f(2))]
}
fn map3(a: [Tr; 3], f: impl Fn(Tr) -> Tr) -> [Tr; 3] {
    [f(a[0]), f(a[1]), f(a[2])]
}
fn zip3(a: [Tr; 3], b: [Tr; 3], f: impl Fn(Tr, Tr) -> Tr) -> [Tr; 3] {
    [f(a[0], b[0]), f(a[1], b[1]), f(a[2], b[2])]
}

/// Least-squares projection of the reads onto the device's constraint.
fn project(kind: Kind, r: &[Obs]) -> Vec<Want> {
    let n = kind.n();
    let mut w = vec![Want::Unchanged; n];
    let some = |i: usize| r[i].is_some();
    match kind {
        Kind::Invert => match (some(0), some(1)) {
            (true, true) => {
                let t = r[0].time.max(r[1].time);
                let m = zip3(trs(&r[0]), trs(&r[1]), |a, b| a.sub(b).div(Tr::exact(2.0)));
                w[0] = Want::Val(t, m);
                w[1] = Want::Val(t, map3(m, |x| x.neg()));
            }
            (true, false) => w[1] = Want::Val(r[0].time, map3(trs(&r[0]), |x| x.neg())),
            (false, true) => w[0] = Want::Val(r[1].time, map3(trs(&r[1]), |x| x.neg())),
            _ => {}
        },
        Kind::Gear(rho) | Kind::GearQ(rho) => {
            let q = Tr::exact(rho);
            match (some(0), some(1)) {
                (true, true) => {
                    let t = r[0].time.max(r[1].time);
                    let d = q.mul(q).add(Tr::exact(1.0));
                    let s = zip3(trs(&r[0]), trs(&r[1]), |a, b| a.add(b.mul(q)));
                    w[0] = Want::Val(t, map3(s, |x| x.div(d)));
                    w[1] = Want::Val(t, map3(s, |x| x.mul(q).div(d)));
                }
                (true, false) => w[1] = Want::Val(r[0].time, map3(trs(&r[0]), |x| x.mul(q))),
                (false, true) => w[0] = Want::Val(r[1].time, map3(trs(&r[1]), |x| x.div(q))),
                _ => {}
            }
        }
        Kind::Axle(_) => {
            let pres: Vec<usize> = (0..n).filter(|&i| some(i)).collect();
            if !pres.is_empty() {
                let t = pres.iter().map(|&i| r[i].time).max().unwrap();
                let mut s = [Tr::exact(0.0); 3];
                for &i in &pres {
                    s = zip3(s, trs(&r[i]), |a, b| a.add(b));
                }
                let c = Tr::exact(pres.len() as f32);
                let m = map3(s, |x| x.div(c));
                for i in 0..n {
                    w[i] = Want::Val(t, m);
                }
            }
        }
        Kind::Diff(mode) => {
            let (x, y, z) = (0usize, 1usize, 2usize);
            match mode {
                0 => {
                    if some(z) && some(y) {
                        w[x] = Want::Val(r[z].time.max(r[y].time), zip3(trs(&r[z]), trs(&r[y]), |a, b| a.sub(b)));
                    }
                }
                1 => {
                    if some(z) && some(x) {
                        w[y] = Want::Val(r[z].time.max(r[x].time), zip3(trs(&r[z]), trs(&r[x]), |a, b| a.sub(b)));
                    }
                }
                2 => {
                    if some(x) && some(y) {
                        w[z] = Want::Val(r[x].time.max(r[y].time), zip3(trs(&r[x]), trs(&r[y]), |a, b| a.add(b)));
                    }
                }
                _ => {
                    if some(x) && some(y) && some(z) {
                        let t = r[x].time.max(r[y].time).max(r[z].time);
                        let (a, b, c) = (trs(&r[x]), trs(&r[y]), trs(&r[z]));
                        let two = Tr::exact(2.0);
                        let three = Tr::exact(3.0);
                        let mut ws = [[Tr::exact(0.0); 3]; 3];
                        for j in 0..3 {
                            ws[0][j] = a[j].mul(two).sub(b[j]).add(c[j]).div(three);
                            ws[1][j] = a[j].neg().add(b[j].mul(two)).add(c[j]).div(three);
                            ws[2][j] = a[j].add(b[j]).add(c[j].mul(two)).div(three);
                        }
                        w[x] = Want::Val(t, ws[0]);
                        w[y] = Want::Val(t, ws[1]);
                        w[z] = Want::Val(t, ws[2]);
                    }
                }
            }
        }
    }
    w
}

pub fn describe(kind: Kind, mask: u32, rounds: &[Vec<usize>], mode: Mode) -> String {
    format!(
        "{:?} connected-mask {:#b}{} rounds [{}]",
        kind,
        mask,
        format!("{}{}", xenv_show(), if ZERO.with(|c| c.get()) != 0 { [" [zero payloads: states (0,0,0), commands A = Position(0), B = Velocity(0)]", " [zero payloads: states (0,0,0), commands A = Velocity(0), B = Position(0)]", " [zero payloads: states (0,0,0), commands A = Acceleration(0), B = Position(-0)]"][ZERO.with(|c| c.get()) as usize - 1] } else if CONSISTENT.with(|c| c.get()) { " [consistent values: every written state is the terminal's member of a tuple satisfying the constraint exactly]" } else { "" }),
        rounds
            .iter()
            .enumerate()
            .map(|(k, o)| format!("({})", o.iter().enumerate().map(|(i, &x)| opt_show(mode, k, i, x)).collect::<Vec<_>>().join(" ")))
            .collect::<Vec<_>>()
            .join("; ")
    )
}

/// factor that maps a command issued at side i to side j (None: device does not relay)
fn cmd_factor(kind: Kind, i: usize, j: usize) -> Option<(f64, bool)> {
    // (factor, divide) : value_j = value_i * factor, or value_i / factor when divide
    match kind {
        Kind::Invert => Some((if i == j { 1.0 } else { -1.0 }, false)),
        Kind::Gear(r) | Kind::GearQ(r) => {
            if i == j {
                Some((1.0, false))
            } else if i == 0 {
                Some((r as f64, false))
            } else {
                Some((r as f64, true))
            }
        }
        Kind::Axle(_) => Some((1.0, false)),
        Kind::Diff(_) => None,
    }
}

pub fn judge_rounds(kind: Kind, mask: u32, rounds: &[Vec<usize>], mode: Mode, time_only: bool, e: &mut Eng) -> u64 {
    let n = kind.n();
    let nr = rounds.len();
    let res = match guard(|| run_rounds(kind, mask, rounds, mode)) {
        Ok(r) => r,
        Err(m) => {
            if !time_only {
                e.violation(&format!("device:{}:panic", kind.name()), nr, || format!("{} panicked: {}", describe(kind, mask, rounds, mode), m));
            }
            return nr as u64;
        }
    };
    e.outcome(h64(&(format!("{:?}", kind), mask, &res)));
    let mut nontrivial = false;
    for (k, ro) in res.iter().enumerate() {
        e.checks += 1;
        let viol = |e: &mut Eng, cls: &str, what: String| {
            if time_only && cls != "time" {
                return;
            }
            e.violation(&format!("device:{}:{}:{}", kind.name(), if mode == Mode::State { "state" } else { "command" }, cls), k + 1, || {
                format!("{} :: round {}: {}", describe(kind, mask, &rounds[..=k], mode), k, what)
            });
        };
        if ro.upd != 0 {
            viol(e, "update-error", format!("update() returned error code {}", ro.upd - 2));
            return nr as u64;
        }
        // external terminals' own slots are never written by a device
        if ro.ext_own_before != ro.ext_own_after {
            viol(e, "external-slot-written", format!("an external terminal's own slot changed: {:?} -> {:?}", ro.ext_own_before, ro.ext_own_after));
            return nr as u64;
        }
        match mode {
            Mode::State => {
                let want = project(kind, &ro.reads_before);
                if ro.reads_before.iter().filter(|x| x.is_some()).count() >= 2 {
                    nontrivial = true;
                }
                for i in 0..n {
                    let got = ro.own_after[i];
                    match want[i] {
                        Want::Unchanged => {
                            if got != ro.own_before[i] {
                                viol(e, "wrote-uninformed", format!("terminal {} own slot changed from {} to {} although the reads {:?} give it nothing new", i, ro.own_before[i].show(), got.show(), ro.reads_before.iter().map(|x| x.show()).collect::<Vec<_>>()));
                                return nr as u64;
                            }
                        }
                        Want::Val(t, v) => {
                            let val_ok = got.is_some() && (0..3).all(|j| v[j].agrees(got.f(j), 8.0));
                            if !val_ok {
                                viol(e, "projection", format!("reads {:?}: terminal {} own slot is {} but the least-squares projection onto the constraint is [{}, {}, {}] at time {}", ro.reads_before.iter().map(|x| x.show()).collect::<Vec<_>>(), i, got.show(), v[0].show(), v[1].show(), v[2].show(), t));
                                return nr as u64;
                            }
                            if got.time != t {
                                viol(e, "time", format!("reads {:?}: terminal {} own slot is stamped {} but the newest contributing time is {}", ro.reads_before.iter().map(|x| x.show()).collect::<Vec<_>>(), i, got.time, t));
                                return nr as u64;
                            }
                        }
                    }
                }
            }
            Mode::Command => {
                if let Kind::Diff(_) = kind {
                    if ro.own_after != ro.own_before || ro.reads_after != ro.reads_before {
                        viol(e, "differential-altered-command", format!("own command slots {:?} -> {:?}", ro.own_before, ro.own_after));
                        return nr as u64;
                    }
                    continue;
                }
                let pres: Vec<usize> = (0..n).filter(|&i| ro.reads_before[i].is_some()).collect();
                if pres.is_empty() {
                    if ro.own_after != ro.own_before {
                        viol(e, "wrote-uninformed", "no command anywhere but an own command slot changed".to_string());
                        return nr as u64;
                    }
                    continue;
                }
                if pres.len() >= 2 {
                    nontrivial = true;
                }
                let tau = pres.iter().map(|&i| ro.reads_before[i].time).max().unwrap();
                // newest issued commands: what each device terminal reads, plus (ties) a command of the
                // same newest time sitting in the own slot of the external terminal on that side
                let mut issuers: Vec<(usize, Obs)> = pres.iter().cloned().filter(|&i| ro.reads_before[i].time == tau).map(|i| (i, ro.reads_before[i])).collect();
                for i in 0..n {
                    let x = ro.ext_own_before[i];
                    if mask >> i & 1 == 1 && x.is_some() && x.time == tau {
                        issuers.push((i, x));
                    }
                    // ... and one of that time in the device terminal's own slot (which of two equally new
                    // commands a terminal read returns - its own or its partner's - is not specified)
                    let x = ro.own_before[i];
                    if x.is_some() && x.time == tau && !issuers.contains(&(i, x)) {
                        issuers.push((i, x));
                    }
                }
                let check = |who: &str, j: usize, got: Obs, e: &mut Eng| -> bool {
                    let mut val_ok = false;
                    for &(i, src) in &issuers {
                        if let Some((f, div)) = cmd_factor(kind, i, j) {
                            let expect = if div { src.f(0) as f64 / f } else { src.f(0) as f64 * f };
                            let tol = 2.0 * (f32::EPSILON as f64) * expect.abs();
                            if got.is_some() && got.bits[1] == src.bits[1] && (got.f(0) as f64 - expect).abs() <= tol {
                                val_ok = true;
                            }
                        }
                    }
                    if !val_ok {
                        viol(e, "relay", format!("command reads before update {:?} (newest time {}, issuer side(s) {:?}) but after update {} {} reads {}", ro.reads_before.iter().map(|x| x.show()).collect::<Vec<_>>(), tau, issuers.iter().map(|x| x.0).collect::<Vec<_>>(), who, j, got.show()));
                        return false;
                    }
                    if got.time != tau {
                        viol(e, "time", format!("command reads before update {:?}: after update {} {} reads {} but the newest issued command has time {}", ro.reads_before.iter().map(|x| x.show()).collect::<Vec<_>>(), who, j, got.show(), tau));
                        return false;
                    }
                    true
                };
                for j in 0..n {
                    if !check("device terminal", j, ro.reads_after[j], e) {
                        return nr as u64;
                    }
                    if mask >> j & 1 == 1 && !check("external terminal", j, ro.ext_reads_after[j], e) {
                        return nr as u64;
                    }
                }
            }
        }
    }
    if nontrivial {
        e.nontrivial += 1;
    }
    nr as u64
}

fn all_masks(n: usize) -> Vec<u32> {
    (0..(1u32 << n)).collect()
}

/// sequences of exactly `depth` rounds; a round = one option per terminal
fn explore(e: &mut Eng, kind: Kind, depth: usize, mode: Mode, time_only: bool, budget: Budget) {
    explore_n(e, kind, depth, mode, time_only, budget, NOPT, None)
}
fn explore_n(e: &mut Eng, kind: Kind, depth: usize, mode: Mode, time_only: bool, budget: Budget, nopt: usize, only_mask: Option<u32>) {
    let n = kind.n();
    if n == 0 {
        // an axle without terminals: update must simply succeed
        let r = guard(|| {
            let mut d = make_dev(kind);
            (obs_unit(&d.upd()), obs_unit(&d.upd()))
        });
        e.executions += 1;
        e.states += 1;
        e.transitions += 2;
        if r != Ok((0, 0)) && !time_only {
            e.violation("device:axle:empty", 1, || format!("Axle<0>::update gave {:?}", r));
        }
        return;
    }
    let per_round = ipow(nopt as u64, n) as usize;
    for mask in all_masks(n).into_iter().filter(|m| only_mask.map(|x| x == *m).unwrap_or(true)) {
        par_seqs(e, per_round, depth, budget, |seq, e| {
            let rounds: Vec<Vec<usize>> = seq
                .iter()
                .map(|&code| {
                    let mut o = vec![0usize; n];
                    decode(code as u64, nopt as u64, &mut o);
                    o
                })
                .collect();
            let a = judge_rounds(kind, mask, &rounds, mode, time_only, e);
            e.sample(|| describe(kind, mask, &rounds, mode));
            a
        });
    }
}

/// The cross-kind environment passes (see `XENV`): one parallel loop over (environment, device,
/// connection subset) jobs, each job running every round sequence of its depth.
fn explore_envs(e1: &mut Eng, e2: &mut Eng, kinds2: &[Kind], deep: bool, mode: Mode, time_only: bool, budget: Budget) {
    let mut jobs1: Vec<(u32, Kind, u32, usize)> = Vec::new();
    let mut jobs2: Vec<(u32, Kind, u32, usize)> = Vec::new();
    for env in 1..=XENV_CODES {
        for &k in kinds2 {
            for m in all_masks(2) {
                jobs1.push((env, k, m, 2));
            }
        }
        for n in 1..=4usize {
            for m in all_masks(n) {
                jobs2.push((env, Kind::Axle(n), m, if n <= 2 || (n == 3 && deep) { 2 } else { 1 }));
            }
        }
        for d in 0..4u8 {
            for m in all_masks(3) {
                jobs2.push((env, Kind::Diff(d), m, 1));
            }
        }
    }
    for (e, jobs) in [(e1, &jobs1), (e2, &jobs2)] {
        par(e, jobs.len() as u64, 1, budget, |j, e| {
            let (env, kind, mask, depth) = jobs[j as usize];
            let n = kind.n();
            let per_round = ipow(NOPT as u64, n);
            XENV.with(|x| x.set(env));
            let mut seq = vec![0usize; depth];
            for idx in 0..ipow(per_round, depth) {
                decode(idx, per_round, &mut seq);
                let rounds: Vec<Vec<usize>> = seq
                    .iter()
                    .map(|&code| {
                        let mut o = vec![0usize; n];
                        decode(code as u64, NOPT as u64, &mut o);
                        o
                    })
                    .collect();
                e.states += new_nodes(idx, per_round, depth);
                e.executions += 1;
                e.max_depth = e.max_depth.max(depth as u64);
                e.transitions += judge_rounds(kind, mask, &rounds, mode, time_only, e);
            }
            XENV.with(|x| x.set(0));
        });
    }
}

/// Consistent-values pass (see `CONSISTENT`): every round sequence of the given depth for every
/// device and connection subset, one parallel loop over (device, subset) jobs.
fn explore_consistent(e1: &mut Eng, e2: &mut Eng, kinds2: &[Kind], deep: bool, time_only: bool, budget: Budget) {
    explore_flagged(e1, e2, kinds2, deep, Mode::State, false, time_only, budget)
}
/// The same loop for the consistent-values mode (zero = false) and the zero-payload mode (zero = true).
fn explore_flagged(e1: &mut Eng, e2: &mut Eng, kinds2: &[Kind], deep: bool, mode: Mode, zero: bool, time_only: bool, budget: Budget) {
    if zero && mode == Mode::Command {
        // every assignment of the zero commands to the two roles (the "old" option is always B)
        for z in 1..=3u8 {
            explore_flagged_z(e1, e2, kinds2, deep, mode, z, time_only, budget);
        }
        return;
    }
    explore_flagged_z(e1, e2, kinds2, deep, mode, if zero { 1 } else { 0 }, time_only, budget)
}
fn explore_flagged_z(e1: &mut Eng, e2: &mut Eng, kinds2: &[Kind], deep: bool, mode: Mode, zero: u8, time_only: bool, budget: Budget) {
    let mut jobs1: Vec<(Kind, u32, usize)> = Vec::new();
    let mut jobs2: Vec<(Kind, u32, usize)> = Vec::new();
    for &k in kinds2 {
        for m in all_masks(2) {
            jobs1.push((k, m, if deep { 3 } else { 2 }));
        }
    }
    for n in 1..=4usize {
        for m in all_masks(n) {
            jobs2.push((Kind::Axle(n), m, if n <= 2 || (n == 3 && deep) { 2 } else { 1 }));
        }
    }
    for d in 0..4u8 {
        for m in all_masks(3) {
            jobs2.push((Kind::Diff(d), m, 2));
        }
    }
    for (e, jobs) in [(e1, &jobs1), (e2, &jobs2)] {
        // split each job's sequence space into slices so that the big ones spread over the cores
        let mut items: Vec<(usize, u64, u64)> = Vec::new();
        for (j, &(kind, _, depth)) in jobs.iter().enumerate() {
            let total = ipow(ipow(NOPT as u64, kind.n()), depth);
            let step = 4096u64;
            let mut lo = 0;
            while lo < total {
                items.push((j, lo, (lo + step).min(total)));
                lo += step;
            }
        }
        par(e, items.len() as u64, 1, budget, |it, e| {
            let (j, lo, hi) = items[it as usize];
            let (kind, mask, depth) = jobs[j];
            let n = kind.n();
            let per_round = ipow(NOPT as u64, n);
            if zero != 0 {
                ZERO.with(|c| c.set(zero));
            } else {
                CONSISTENT.with(|c| c.set(true));
            }
            let mut seq = vec![0usize; depth];
            for idx in lo..hi {
                decode(idx, per_round, &mut seq);
                let rounds: Vec<Vec<usize>> = seq
                    .iter()
                    .map(|&code| {
                        let mut o = vec![0usize; n];
                        decode(code as u64, NOPT as u64, &mut o);
                        o
                    })
                    .collect();
                e.states += new_nodes(idx, per_round, depth);
                e.executions += 1;
                e.max_depth = e.max_depth.max(depth as u64);
                e.transitions += judge_rounds(kind, mask, &rounds, mode, time_only, e);
            }
            CONSISTENT.with(|c| c.set(false));
            ZERO.with(|c| c.set(0));
        });
    }
}

/// 8-round sequences with at most k non-empty rounds (deviation-bounded form of "up to 8 rounds")
fn explore_sparse(e: &mut Eng, kind: Kind, k: usize, mode: Mode, time_only: bool, budget: Budget) {
    let n = kind.n();
    let per_round = ipow(NOPT as u64, n) as usize - 1;
    let cases = deviation_cases(8, per_round, k);
    for mask in all_masks(n) {
        par_cases(e, &cases, budget, |c, e| {
            let mut rounds: Vec<Vec<usize>> = vec![vec![0usize; n]; 8];
            for &(p, a) in c {
                let mut o = vec![0usize; n];
                decode(a as u64 + 1, NOPT as u64, &mut o);
                rounds[p as usize] = o;
            }
            e.executions += 1;
            e.states += 1;
            e.max_depth = e.max_depth.max(8);
            e.transitions += judge_rounds(kind, mask, &rounds, mode, time_only, e);
        });
    }
}

/// Periodic round sequences of 16 rounds (beyond the "up to 8 rounds" of the property statements,
/// which they include as prefixes): every primitive word of length <= maxp over the per-round
/// options repeated, with at most one deviating round; judged after every round.
fn explore_periodic(e: &mut Eng, kind: Kind, maxp: usize, mode: Mode, time_only: bool, budget: Budget) {
    let n = kind.n();
    let per_round = ipow(NOPT as u64, n) as usize;
    for mask in all_masks(n) {
        par_periodic(e, per_round, maxp, 16, budget, |seq, e| {
            let rounds: Vec<Vec<usize>> = seq
                .iter()
                .map(|&x| {
                    let mut o = vec![0usize; n];
                    decode(x as u64, NOPT as u64, &mut o);
                    o
                })
                .collect();
            judge_rounds(kind, mask, &rounds, mode, time_only, e)
        });
    }
}

/// Long runs (thorough tier): one round kind repeated to 255..257 rounds, then one round of each kind.
fn explore_long(e: &mut Eng, kind: Kind, mode: Mode, time_only: bool, budget: Budget) {
    let n = kind.n();
    let per_round = ipow(NOPT as u64, n) as usize;
    for mask in all_masks(n) {
        par_long(e, per_round, 1, &[255, 256, 257], budget, |seq, e| {
            let rounds: Vec<Vec<usize>> = seq
                .iter()
                .map(|&x| {
                    let mut o = vec![0usize; n];
                    decode(x as u64, NOPT as u64, &mut o);
                    o
                })
                .collect();
            judge_rounds(kind, mask, &rounds, mode, time_only, e)
        });
    }
}

/// Mixed-magnitude states: per component one of {large and consistent with the constraint, small
/// and inconsistent, zero}; a projection must treat the three components independently.
fn mixed_magnitudes(e: &mut Eng) {
    let mut kinds = vec![Kind::Invert, Kind::Axle(2)];
    kinds.extend(gear_kinds());
    for kind in kinds {
        let f: f32 = match kind {
            Kind::Invert => -1.0,
            Kind::Gear(r) | Kind::GearQ(r) => r,
            _ => 1.0,
        };
        for code in 0..27usize {
            let mut a = [0.0f32; 3];
            let mut b = [0.0f32; 3];
            for j in 0..3 {
                match (code / [1, 3, 9][j]) % 3 {
                    0 => {
                        a[j] = 4.0e6;
                        b[j] = f * 4.0e6;
                    }
                    1 => {
                        a[j] = 1.0;
                        b[j] = 4.0;
                    }
                    _ => {}
                }
            }
            for mask in 0..4u32 {
                e.executions += 1;
                e.states += 1;
                e.transitions += 1;
                e.checks += 1;
                if code % 3 != (code / 3) % 3 || code % 3 != (code / 9) % 3 {
                    e.nontrivial += 1;
                }
                let (sa, sb) = (State::new_raw(a[0], a[1], a[2]), State::new_raw(b[0], b[1], b[2]));
                let r = guard(|| {
                    let xs: Vec<Term> = (0..2).map(|_| Terminal::new()).collect();
                    let mut dev = make_dev(kind);
                    for i in 0..2 {
                        if mask >> i & 1 == 1 {
                            connect(dev.term(i), &xs[i]);
                        }
                    }
                    let t0: &Term = if mask & 1 == 1 { &xs[0] } else { dev.term(0) };
                    let t1: &Term = if mask & 2 == 2 { &xs[1] } else { dev.term(1) };
                    t0.borrow_mut().set(Datum::new(Time(5), sa)).unwrap();
                    t1.borrow_mut().set(Datum::new(Time(6), sb)).unwrap();
                    let reads = vec![read_s(dev.term(0)), read_s(dev.term(1))];
                    dev.upd().unwrap();
                    (reads, vec![own_s(dev.term(0)), own_s(dev.term(1))])
                });
                let (reads, own) = match r {
                    Ok(x) => x,
                    Err(m) => {
                        e.violation(&format!("device:{}:panic", kind.name()), 1, || format!("{:?} states {:?} / {:?}: {}", kind, sa, sb, m));
                        continue;
                    }
                };
                e.outcome(h64(&(format!("{:?}", kind), code, mask, &own)));
                let want = project(kind, &reads);
                for i in 0..2 {
                    if let Want::Val(t, v) = want[i] {
                        let got = own[i];
                        if !(got.is_some() && got.time == t && (0..3).all(|j| v[j].agrees(got.f(j), 8.0))) {
                            e.violation(&format!("device:{}:state:projection", kind.name()), 1, || {
                                format!("{:?} mask {:#b}: side 1 reads {:?}, side 2 reads {:?}; terminal {} own slot is {} but the per-component least-squares projection is [{}, {}, {}]", kind, mask, sa, sb, i, got.show(), v[0].show(), v[1].show(), v[2].show())
                            });
                            break;
                        }
                    }
                }
            }
        }
    }
    e.sample(|| "Gear(2): side 1 (4e6, 1, 0), side 2 (8e6, 4, 0): positions already consistent, velocities (1,4) must still be projected to (1.8, 3.6)".to_string());
}

fn gear_kinds() -> Vec<Kind> {
    vec![Kind::Gear(1.0), Kind::Gear(-2.0), Kind::Gear(0.5), Kind::Gear(100.0), Kind::Gear(-0.01), Kind::GearQ(-2.0)]
}

fn tooth_lists(e: &mut Eng) {
    let teeth = [10.0f32, 20.0, 45.0];
    fn run<const N: usize>(list: [f32; N]) -> Obs {
        let g = GearTrain::<E>::new(list);
        g.get_terminal_1().borrow_mut().set(Datum::new(Time(3), State::new_raw(1.0, 2.0, -4.0))).unwrap();
        let mut g = g;
        g.update().unwrap();
        own_s(g.get_terminal_2())
    }
    for n in 2..=6usize {
        let total = ipow(3, n);
        let mut idx = vec![0usize; n];
        for code in 0..total {
            decode(code, 3, &mut idx);
            let l: Vec<f32> = idx.iter().map(|&i| teeth[i]).collect();
            e.executions += 1;
            e.states += 1;
            e.transitions += 1;
            e.checks += 1;
            if l[0] != l[n - 1] {
                e.nontrivial += 1;
            }
            let r = guard(|| match n {
                2 => run::<2>([l[0], l[1]]),
                3 => run::<3>([l[0], l[1], l[2]]),
                4 => run::<4>([l[0], l[1], l[2], l[3]]),
                5 => run::<5>([l[0], l[1], l[2], l[3], l[4]]),
                _ => run::<6>([l[0], l[1], l[2], l[3], l[4], l[5]]),
            });
            let sign = if (n - 1) % 2 == 0 { 1.0f32 } else { -1.0 };
            let ratio = Tr::exact(l[0]).div(Tr::exact(l[n - 1])).mul(Tr::exact(sign));
            match r {
                Err(m) => e.violation("device:gear:teeth-panic", n, || format!("teeth {:?}: {}", l, m)),
                Ok(o) => {
                    e.outcome(h64(&o));
                    let want = [Tr::exact(1.0).mul(ratio), Tr::exact(2.0).mul(ratio), Tr::exact(-4.0).mul(ratio)];
                    if !(o.is_some() && o.time == 3 && (0..3).all(|j| want[j].agrees(o.f(j), 8.0))) {
                        e.violation("device:gear:teeth-ratio", n, || {
                            format!("teeth {:?}: state (1,2,-4) on side 1 propagated to side 2 as {} but ratio first/last with sign (-1)^(gears-1) = {}", l, o.show(), ratio.show())
                        });
                    }
                }
            }
        }
    }
    e.sample(|| "teeth [10,20,45]: ratio 10/45, sign + (3 gears)".to_string());
}

// ------------------------------------------------------------------ chains (C13)
const CHAIN_KINDS: [Kind; 4] = [Kind::Invert, Kind::Gear(2.0), Kind::Gear(-0.5), Kind::Axle(2)];
fn forward_factor(k: Kind) -> f64 {
    match k {
        Kind::Invert => -1.0,
        Kind::Gear(r) => r as f64,
        _ => 1.0,
    }
}
/// Build a chain, issue one command per round at the left (0) or right (1) end, update the
/// devices in order from the issuing end, and read every terminal.
fn chain_time(k: usize) -> i64 {
    let b = TIME_BASE.load(std::sync::atomic::Ordering::Relaxed);
    if b < 0 {
        split_time(-30 + 10 * k as i64)
    } else {
        b + 3 * k as i64
    }
}
fn run_chain(kinds: &[Kind], ends: &[usize]) -> Vec<(Obs, Obs, Vec<Obs>)> {
    let xl: Term = Terminal::new();
    let xr: Term = Terminal::new();
    let mut devs: Vec<Box<dyn DevIf<'_> + '_>> = kinds.iter().map(|&k| make_dev(k)).collect();
    let m = devs.len();
    connect(devs[0].term(0), &xl);
    for i in 0..m - 1 {
        connect(devs[i].term(1), devs[i + 1].term(0));
    }
    connect(devs[m - 1].term(1), &xr);
    let mut out = Vec::new();
    for (k, &end) in ends.iter().enumerate() {
        let t = Time(chain_time(k));
        let cmd = if k % 2 == 0 { Command::Velocity(3.0 + k as f32) } else { Command::Position(-(1.0 + k as f32)) };
        if end == 0 {
            xl.borrow_mut().set(Datum::new(t, cmd)).unwrap();
            for d in devs.iter_mut() {
                d.upd().unwrap();
            }
        } else {
            xr.borrow_mut().set(Datum::new(t, cmd)).unwrap();
            for d in devs.iter_mut().rev() {
                d.upd().unwrap();
            }
        }
        let mut inner = Vec::new();
        for d in &devs {
            inner.push(read_c(d.term(0)));
            inner.push(read_c(d.term(1)));
        }
        out.push((read_c(&xl), read_c(&xr), inner));
    }
    out
}

fn chains(e: &mut Eng, max_len: usize, rounds: usize, budget: Budget) {
    let mut all: Vec<Vec<Kind>> = Vec::new();
    for len in 1..=max_len {
        let mut idx = vec![0usize; len];
        for code in 0..ipow(4, len) {
            decode(code, 4, &mut idx);
            all.push(idx.iter().map(|&i| CHAIN_KINDS[i]).collect());
        }
    }
    let nseq = ipow(2, rounds);
    par_cases(e, &all, budget, |kinds, e| {
        let mut ends = vec![0usize; rounds];
        for code in 0..nseq {
            decode(code, 2, &mut ends);
            e.executions += 1;
            e.states += 1;
            e.transitions += (rounds * kinds.len()) as u64;
            e.max_depth = e.max_depth.max(rounds as u64);
            if kinds.len() >= 2 {
                e.nontrivial += 1;
            }
            let desc = || format!("chain {:?} issuing ends {:?}", kinds, ends);
            let r = match guard(|| run_chain(kinds, &ends)) {
                Ok(r) => r,
                Err(m) => {
                    e.violation("chain:panic", kinds.len(), || format!("{} panicked: {}", desc(), m));
                    continue;
                }
            };
            e.outcome(h64(&r));
            let total: f64 = kinds.iter().map(|&k| forward_factor(k)).product();
            for (k, (l, rr, inner)) in r.iter().enumerate() {
                e.checks += 1;
                let t = chain_time(k);
                let (kindcode, v) = if k % 2 == 0 { (2u32, 3.0 + k as f64) } else { (1u32, -(1.0 + k as f64)) };
                let (want_l, want_r) = if ends[k] == 0 { (v, v * total) } else { (v / total, v) };
                let okc = |o: &Obs, want: f64| o.is_some() && o.time == t && o.bits[1] == kindcode && o.f(0) as f64 == want;
                if !okc(l, want_l) || !okc(rr, want_r) {
                    e.violation("chain:far-end", kinds.len(), || {
                        format!("{}: round {} issued {} (kind {}) at time {} on the {} end; after updating the devices in order the left end reads {} and the right end reads {} (expected {} / {}, product of ratios {})", desc(), k, v, kindcode, t, if ends[k] == 0 { "left" } else { "right" }, l.show(), rr.show(), want_l, want_r, total)
                    });
                    break;
                }
                // every intermediate terminal carries the command scaled along the path
                let mut acc = want_l;
                let mut bad = false;
                for (di, &kd) in kinds.iter().enumerate() {
                    if !okc(&inner[2 * di], acc) {
                        bad = true;
                    }
                    acc *= forward_factor(kd);
                    if !okc(&inner[2 * di + 1], acc) {
                        bad = true;
                    }
                }
                if bad {
                    e.violation("chain:intermediate", kinds.len(), || format!("{}: round {}: intermediate terminal reads {:?} are not the command scaled along the path", desc(), k, inner.iter().map(|x| x.show()).collect::<Vec<_>>()));
                    break;
                }
            }
        }
        e.sample(|| format!("chain {:?} x all 2^{} issuing-end sequences", kinds, rounds));
    });
}

fn state_engines(ctx: &Ctx, time_only: bool, tag: &str) -> Vec<Eng> {
    let budget = Budget::secs(if ctx.thorough { 2500 } else { 150 });
    let deep = ctx.thorough && !time_only;
    let mut e1 = Eng::new(
        &format!("{}-two-terminal", tag),
        "Invert, GearTrain (ratios 1,-2,0.5,100,-0.01; raw and Quantity constructors): every subset of terminals connected to external terminals x all sequences of exactly `depth` rounds, a round giving each terminal one of {nothing, state A newest, state B newest, A at the round's shared time (ties), B older than the previous round} (times cross zero) and then calling update(); step-local oracle: own slots after update = least-squares projection of the states read at the terminals just before (f64 reference with error bound, exact where dyadic), stamped with the newest contributing time, uninformed/unaffected slots bit-identical, external slots never written; non-trivial = a round in which at least two terminals had data",
        "",
    );
    let d2 = if deep { 4 } else { 3 };
    let mut kinds = vec![Kind::Invert];
    kinds.extend(gear_kinds());
    for &k in &kinds {
        explore(&mut e1, k, d2, Mode::State, time_only, budget);
        explore_sparse(&mut e1, k, if deep { 3 } else { 2 }, Mode::State, time_only, budget);
        if !time_only {
            explore_periodic(&mut e1, k, 2, Mode::State, time_only, budget);
        }
        if deep {
            explore_long(&mut e1, k, Mode::State, time_only, budget);
        }
    }
    if deep {
        // connected terminals additionally written directly (own slot and partner slot both carry data)
        for &k in &kinds {
            explore_n(&mut e1, k, 3, Mode::State, time_only, budget, NOPT_DIRECT, Some(3));
        }
    }
    e1.bounds = format!("depth {} => 25^{} round sequences x 4 connection subsets x 7 devices; plus all 8-round sequences with <= {} non-empty rounds{}", d2, d2, if deep { 3 } else { 2 }, if deep { "; plus 49^3 round sequences with direct writes into connected device terminals" } else { "" });
    if !time_only {
        e1.bounds.push_str(&format!("; plus periodic 16-round sequences (every primitive word of length <= 2 over the 25 round kinds repeated, at most one deviating round: {} sequences x 4 subsets x 7 devices)", periodic_count(25, 2, 16)));
    }
    let mut e2 = Eng::new(
        &format!("{}-axle-differential", tag),
        "Axle<N> for N=0..6 and Differential in all four trust modes, same round alphabet and oracle (axle: mean over terminals with data written to all; differential: distrusted branch recomputed from the other two, equal trust = Lagrange solution, nothing happens until every trusted branch has data)",
        "",
    );
    let d3 = if deep { 3 } else { 2 };
    for n in 0..=6usize {
        let depth = match n {
            0 | 1 => 4,
            2 => d2,
            3 => d3,
            4 => if deep { 2 } else { 1 },
            _ => 1,
        };
        explore(&mut e2, Kind::Axle(n), depth, Mode::State, time_only, budget);
    }
    for m in 0..4u8 {
        explore(&mut e2, Kind::Diff(m), d3, Mode::State, time_only, budget);
        if deep {
            explore_sparse(&mut e2, Kind::Diff(m), 2, Mode::State, time_only, budget);
        }
    }
    if !time_only {
        // dense sweep of the gear ratio: one round of every kind for every ratio of the grid, both signs
        for &r in &ratio_grid(if deep { 32 } else { 16 }, 7) {
            if r < 0.01 || r > 100.0 {
                continue;
            }
            for sign in [1.0f32, -1.0] {
                explore(&mut e1, Kind::Gear(sign * r as f32), 1, Mode::State, time_only, budget);
            }
        }
        e1.notes.push("gear ratio sweep: one round of every kind x 4 connection subsets for every ratio +-2^(i/16) (thorough 2^(i/32)) in [0.01, 100] plus 1 +- 2^-k".into());
        // two devices alive at once, all pairs of 2-round sequences, in lockstep vs. alone
        for (ka, kb) in [(Kind::Invert, Kind::Invert), (Kind::Gear(-2.0), Kind::Gear(-2.0)), (Kind::Gear(0.5), Kind::Gear(100.0)), (Kind::Axle(2), Kind::Axle(2)), (Kind::Invert, Kind::Gear(-2.0))] {
            explore_twins(&mut e1, ka, kb, 2, Mode::State, budget);
        }
        explore_twins(&mut e1, Kind::Diff(3), Kind::Diff(3), 1, Mode::State, budget);
        explore_twins(&mut e1, Kind::Axle(3), Kind::Axle(3), 1, Mode::State, budget);
        e1.notes.push("twins: two devices alive at once (same kind, same kind with another ratio, two kinds), every 2-round sequence (3-terminal devices: 1 round) of one against 6 partner sequences of the other, in both orders, run in lockstep must behave as each does alone".into());
    }
    // states in the presence of a much newer command on one side
    for env in 1..=2u8 {
        CMD_ENV.store(env, std::sync::atomic::Ordering::SeqCst);
        for &k in &kinds {
            explore(&mut e1, k, 2, Mode::State, time_only, budget);
        }
        explore(&mut e2, Kind::Axle(3), 1, Mode::State, time_only, budget);
        explore(&mut e2, Kind::Diff(3), 1, Mode::State, time_only, budget);
    }
    CMD_ENV.store(0, std::sync::atomic::Ordering::SeqCst);
    // states that already satisfy the constraint
    explore_consistent(&mut e1, &mut e2, &kinds, deep, time_only, budget);
    e1.notes.push("consistent-values pass: the same round sequences (2-terminal devices depth 2, thorough 3; Axle<1,2> depth 2, Axle<3,4> depth 1 (thorough Axle<3> depth 2); differentials in all four trust modes depth 2) with every written state taken from a tuple that satisfies the device's constraint exactly, so that rounds differ only in presence and timestamps: states that already satisfy the constraint are left unchanged in value AND are stamped with the newest contributing time".into());
    // zero payloads, with ordinary timestamps and with the timestamps at the two ends of the i64 range
    explore_flagged(&mut e1, &mut e2, &kinds, false, Mode::State, true, time_only, budget);
    TIME_SPLIT.store(true, std::sync::atomic::Ordering::SeqCst);
    explore_flagged(&mut e1, &mut e2, &kinds, false, Mode::State, true, time_only, budget);
    TIME_SPLIT.store(false, std::sync::atomic::Ordering::SeqCst);
    e1.notes.push("zero-payload pass: the same round sequences (depths as in the consistent-values pass, quick bounds) with every written state equal to (0,0,0), once with ordinary timestamps and once with the oldest timestamp equal to i64::MIN and the newer ones just below i64::MAX: data that look like a placeholder (zero payload, extreme stamp) are data".into());
    // states in the presence of commands (24 cross-kind environments)
    explore_envs(&mut e1, &mut e2, &kinds, deep, Mode::State, time_only, budget);
    e1.notes.push("cross-kind environments: 24 more passes (2-terminal devices and Axle<1,2> depth 2, Axle<3,4> and differentials depth 1; thorough Axle<3> depth 2) with commands present at {terminal 0, the last terminal, all terminals} stamped {1e9+7 ns, older than the round, the round's shared time, newer than the round}, written {once before round 0, before every round}: the states written by update() and their timestamps must not depend on them".into());
    e1.notes.push("two more passes (depth 2) put a command stamped 1e9+7 ns on side 1 resp. side 2 before the state rounds: states and their timestamps must not depend on it".into());
    // second time base: large timestamps a few ns apart
    TIME_BASE.store(1_500_000_000, std::sync::atomic::Ordering::SeqCst);
    for &k in &kinds {
        explore(&mut e1, k, 2, Mode::State, time_only, budget);
    }
    explore(&mut e2, Kind::Axle(3), 1, Mode::State, time_only, budget);
    for m in 0..4u8 {
        explore(&mut e2, Kind::Diff(m), 1, Mode::State, time_only, budget);
    }
    TIME_BASE.store(-25, std::sync::atomic::Ordering::SeqCst);
    e1.notes.push("a second pass (depth 2) uses round base 1.5e9 ns: timestamps a few ns apart at a magnitude where f32 seconds cannot tell them apart".into());
    // third pass: timestamps at the two ends of the i64 range
    TIME_SPLIT.store(true, std::sync::atomic::Ordering::SeqCst);
    for &k in &kinds {
        explore(&mut e1, k, 2, Mode::State, time_only, budget);
    }
    explore(&mut e2, Kind::Axle(3), 1, Mode::State, time_only, budget);
    for m in 0..4u8 {
        explore(&mut e2, Kind::Diff(m), 1, Mode::State, time_only, budget);
    }
    TIME_SPLIT.store(false, std::sync::atomic::Ordering::SeqCst);
    e1.notes.push("a third pass (depth 2; 3-terminal devices depth 1) maps the same logical times onto the two ends of the i64 range (older data just above i64::MIN, newer just below i64::MAX): timestamps further apart than i64::MAX".into());
    e2.bounds = format!("3-terminal devices: depth {} (125^{} round sequences x 8 connection subsets); axles N=4: depth {}, N=5,6: depth 1 (5^N options x 2^N subsets)", d3, d3, if deep { 2 } else { 1 });
    vec![e1, e2]
}

fn command_engines(ctx: &Ctx, time_only: bool, tag: &str) -> Vec<Eng> {
    let budget = Budget::secs(if ctx.thorough { 2500 } else { 150 });
    let deep = ctx.thorough && !time_only;
    let mut e1 = Eng::new(
        &format!("{}-devices", tag),
        "Invert, GearTrain (5 ratios), Axle<1..6>, Differential (4 modes): every connection subset x all sequences of exactly `depth` rounds, a round giving each terminal one of {nothing, command A newest, command B (other kind) newest, A at the shared time (ties), B old} then update(); oracle: afterwards every device terminal and every connected external terminal reads a newest issued command (ties: any newest) with the issuer's time and kind, value negated / multiplied / divided by the ratio / unchanged according to the path; a differential never alters command slots; non-trivial = at least two terminals held a command",
        "",
    );
    let d2 = if deep { 4 } else { 3 };
    let mut kinds = vec![Kind::Invert];
    kinds.extend(gear_kinds());
    for &k in &kinds {
        explore(&mut e1, k, d2, Mode::Command, time_only, budget);
        explore_sparse(&mut e1, k, if deep { 3 } else { 2 }, Mode::Command, time_only, budget);
        if !time_only {
            explore_periodic(&mut e1, k, 2, Mode::Command, time_only, budget);
        }
        if deep {
            explore_long(&mut e1, k, Mode::Command, time_only, budget);
        }
    }
    if deep {
        for &k in &kinds {
            explore_n(&mut e1, k, 3, Mode::Command, time_only, budget, NOPT_DIRECT, Some(3));
        }
    }
    let d3 = if deep { 3 } else { 2 };
    for n in 1..=6usize {
        let depth = match n {
            1 => 4,
            2 => d2,
            3 => d3,
            4 => if deep { 2 } else { 1 },
            _ => 1,
        };
        explore(&mut e1, Kind::Axle(n), depth, Mode::Command, time_only, budget);
    }
    for m in 0..4u8 {
        explore(&mut e1, Kind::Diff(m), d3, Mode::Command, time_only, budget);
    }
    if !time_only {
        for &r in &ratio_grid(if deep { 32 } else { 16 }, 7) {
            if r < 0.01 || r > 100.0 {
                continue;
            }
            for sign in [1.0f32, -1.0] {
                explore(&mut e1, Kind::Gear(sign * r as f32), 1, Mode::Command, time_only, budget);
            }
        }
        e1.notes.push("gear ratio sweep: one round of every kind x 4 connection subsets for every ratio +-2^(i/16) (thorough 2^(i/32)) in [0.01, 100] plus 1 +- 2^-k".into());
        for (ka, kb) in [(Kind::Invert, Kind::Invert), (Kind::Gear(-2.0), Kind::Gear(-2.0)), (Kind::Gear(0.5), Kind::Gear(100.0)), (Kind::Axle(2), Kind::Axle(2)), (Kind::Invert, Kind::Gear(-2.0))] {
            explore_twins(&mut e1, ka, kb, 2, Mode::Command, budget);
        }
        explore_twins(&mut e1, Kind::Axle(3), Kind::Axle(3), 1, Mode::Command, budget);
        e1.notes.push("twins: two devices alive at once, every 2-round command sequence of one against 6 partner sequences of the other, in both orders, run in lockstep must behave as each does alone".into());
    }
    // zero payloads (Position(0) / Velocity(0)), ordinary and extreme timestamps
    {
        let mut scratch = e1.fork();
        explore_flagged(&mut e1, &mut scratch, &kinds, false, Mode::Command, true, time_only, budget);
        TIME_SPLIT.store(true, std::sync::atomic::Ordering::SeqCst);
        explore_flagged(&mut e1, &mut scratch, &kinds, false, Mode::Command, true, time_only, budget);
        TIME_SPLIT.store(false, std::sync::atomic::Ordering::SeqCst);
        e1.merge(scratch);
        e1.notes.push("zero-payload pass: the same round sequences (2-terminal devices and Axle<1,2> depth 2, Axle<3,4> depth 1, differentials depth 2) with the two commands drawn from {Position(0), Velocity(0), Acceleration(0), Position(-0)} in three role assignments, once with ordinary timestamps and once with the oldest timestamp equal to i64::MIN and the newer ones just below i64::MAX: a command that looks like a placeholder (zero value, i64::MIN stamp) is a command and must be relayed".into());
    }
    // commands in the presence of states (24 cross-kind environments)
    {
        let mut scratch = e1.fork();
        explore_envs(&mut e1, &mut scratch, &kinds, deep, Mode::Command, time_only, budget);
        e1.merge(scratch);
    }
    e1.notes.push("cross-kind environments: 24 more passes (2-terminal devices and Axle<1,2> depth 2, Axle<3,4> and differentials depth 1; thorough Axle<3> depth 2) with states present at {terminal 0, the last terminal, all terminals} stamped {1e9+7 ns, older than the round, the round's shared time, newer than the round}, written {once before round 0, before every round}: the relayed command, its kind and its timestamp must not depend on them".into());
    TIME_BASE.store(1_500_000_000, std::sync::atomic::Ordering::SeqCst);
    for &k in &kinds {
        explore(&mut e1, k, 2, Mode::Command, time_only, budget);
    }
    for n in 2..=4usize {
        explore(&mut e1, Kind::Axle(n), if n == 2 { 2 } else { 1 }, Mode::Command, time_only, budget);
    }
    TIME_BASE.store(-25, std::sync::atomic::Ordering::SeqCst);
    TIME_SPLIT.store(true, std::sync::atomic::Ordering::SeqCst);
    for &k in &kinds {
        explore(&mut e1, k, 2, Mode::Command, time_only, budget);
    }
    for n in 2..=3usize {
        explore(&mut e1, Kind::Axle(n), if n == 2 { 2 } else { 1 }, Mode::Command, time_only, budget);
    }
    for m in 0..4u8 {
        explore(&mut e1, Kind::Diff(m), 1, Mode::Command, time_only, budget);
    }
    TIME_SPLIT.store(false, std::sync::atomic::Ordering::SeqCst);
    e1.bounds = format!("2-terminal devices depth {}, 3-terminal depth {}, axles 4..6 shallower; plus 8-round sequences with few non-empty rounds; plus a depth-2 pass with round base 1.5e9 ns (timestamps a few ns apart, indistinguishable in f32 seconds); plus a depth-2 pass with the timestamps at the two ends of the i64 range (further apart than i64::MAX)", d2, d3);
    if !time_only {
        e1.bounds.push_str(&format!("; plus periodic 16-round sequences for the 2-terminal devices (every primitive word of length <= 2 over the 25 round kinds, at most one deviating round: {} sequences x 4 subsets x 7 devices)", periodic_count(25, 2, 16)));
    }
    vec![e1]
}

pub fn run(ctx: &Ctx, commands: bool) -> Vec<Eng> {
    if !commands {
        let mut v = state_engines(ctx, false, "c08");
        let mut e3 = Eng::new(
            "c08-tooth-lists",
            "GearTrain::new for every tooth list of length 2..6 over {10,20,45}: a state set on side 1 propagates to side 2 multiplied by first/last with sign (-1)^(gears-1); non-trivial = first and last tooth counts differ",
            "3^2+...+3^6 = 1089 lists",
        );
        tooth_lists(&mut e3);
        v.push(e3);
        let mut e4 = Eng::new(
            "c08-mixed-magnitudes",
            "2-terminal devices and Axle<2>: states whose three components independently are {large (4e6) and already consistent with the constraint, small and inconsistent (1 vs 4), zero} (27 combinations) x 4 connection subsets, one update: every component must be projected on its own; non-trivial = components of different classes",
            "8 devices x 27 x 4",
        );
        mixed_magnitudes(&mut e4);
        v.push(e4);
        v
    } else {
        let mut v = command_engines(ctx, false, "c13");
        let budget = Budget::secs(if ctx.thorough { 1500 } else { 100 });
        let (ml, rounds) = if ctx.thorough { (5, 8) } else { (4, 6) };
        let mut e2 = Eng::new(
            "c13-chains",
            "every chain of 1..L devices from {Invert, Gear(2), Gear(-1/2), Axle<2>} joined by connect(), external terminals at both ends, x every sequence of R rounds each issuing a fresh command (alternating kinds) at the left or right end and updating the devices in order from the issuing end; afterwards both ends and every intermediate terminal must read the command scaled by the product of the ratios along the path (exact: ratios are powers of two); non-trivial = chain of at least two devices",
            &format!("L={} ({} chains) x 2^{} issuing-end sequences", ml, (1..=ml).map(|l| ipow(4, l)).sum::<u64>(), rounds),
        );
        chains(&mut e2, ml, rounds, budget);
        TIME_BASE.store(1_500_000_000, std::sync::atomic::Ordering::SeqCst);
        chains(&mut e2, ml.min(3), rounds.min(5), budget);
        TIME_BASE.store(-25, std::sync::atomic::Ordering::SeqCst);
        TIME_SPLIT.store(true, std::sync::atomic::Ordering::SeqCst);
        chains(&mut e2, ml.min(3), rounds.min(4), budget);
        TIME_SPLIT.store(false, std::sync::atomic::Ordering::SeqCst);
        e2.notes.push("chains of up to 3 devices x 2^5 sequences are repeated with command times 1.5e9 + 3k ns, and x 2^4 sequences with the first command just above i64::MIN and the later ones just below i64::MAX".into());
        v.push(e2);
        v
    }
}

pub fn run_time_mode(ctx: &Ctx) -> Vec<Eng> {
    let quick = Ctx { thorough: false, seed: ctx.seed, trace: false };
    let mut v = state_engines(&quick, true, "c03-device-state-timestamps");
    v.extend(command_engines(&quick, true, "c03-device-command-timestamps"));
    v
}

impl RoundObs {
    /// canonical words (f32 as values) for cross-configuration traces
    pub fn canon_words(&self) -> Vec<(u32, i64, [u32; 3])> {
        let c = crate::c19::canon;
        let mut v = Vec::new();
        for group in [&self.reads_before, &self.own_after, &self.reads_after, &self.ext_reads_after] {
            for o in group.iter() {
                v.push((o.tag, if o.tag == 1 { o.time } else { 0 }, [c(o.f(0)), if o.bits[1] <= 3 { o.bits[1] } else { c(o.f(1)) }, c(o.f(2))]));
            }
        }
        v.push((self.upd, 0, [0; 3]));
        v
    }
}
