//! C12 — EWMA and moving average are time-weighted convex averages and never panic.
use crate::env::*;
use crate::mc::*;
use crate::refmodels::*;
use crate::Ctx;
use rrtk::streams::control::*;
use rrtk::*;

#[derive(Clone, Copy, Debug, PartialEq)]
pub enum Ev {
    P(i64, f32),
    N,
    Er,
}
pub fn show(h: &[Ev]) -> String {
    h.iter()
        .map(|e| match e {
            Ev::P(d, v) => format!("P(+{}ns,{:?})", d, v),
            Ev::N => "N".to_string(),
            Ev::Er => "E".to_string(),
        })
        .collect::<Vec<_>>()
        .join(",")
}

#[derive(Clone, Copy, Debug, PartialEq)]
pub enum Cfg {
    Ewma(f32),
    Ma(i64),
}

const EPS: f64 = f32::EPSILON as f64;

fn ulps(a: f32, b: f32, scale: f64) -> f64 {
    if a == b {
        return 0.0;
    }
    ((a as f64 - b as f64).abs()) / (EPS * scale.max(f64::MIN_POSITIVE))
}

/// run both payload variants of one filter in lockstep; per event (update f32, get f32, update Q, get Q)
pub fn run_real(cfg: Cfg, h: &[Ev], t0: i64) -> Vec<(u32, Obs, u32, Obs)> {
    let inf = rc(Scr::<f32>::new(Ok(None)));
    let inq = rc(Scr::<Quantity>::new(Ok(None)));
    let mut out = Vec::with_capacity(h.len());
    let mut t = t0;
    macro_rules! drive {
        ($sf:expr, $sq:expr) => {{
            let mut sf = $sf;
            let mut sq = $sq;
            for (k, e) in h.iter().enumerate() {
                match e {
                    Ev::P(d, v) => {
                        t += d;
                        inf.borrow_mut().next = Ok(Some(Datum::new(Time(t), *v)));
                        inq.borrow_mut().next = Ok(Some(Datum::new(Time(t), Quantity::new(*v, MILLIMETER))));
                    }
                    Ev::N => {
                        inf.borrow_mut().next = Ok(None);
                        inq.borrow_mut().next = Ok(None);
                    }
                    Ev::Er => {
                        inf.borrow_mut().next = Err(err_at(k));
                        inq.borrow_mut().next = Err(err_at(k));
                    }
                }
                let uf = obs_unit(&sf.update());
                let gf = obs(&sf.get());
                let uq = obs_unit(&sq.update());
                let gq = obs(&sq.get());
                out.push((uf, gf, uq, gq));
            }
        }};
    }
    match cfg {
        Cfg::Ewma(s) => drive!(EWMAStream::new(rf(&inf), s), EWMAStream::new(rf(&inq), s)),
        Cfg::Ma(w) => drive!(MovingAverageStream::new(rf(&inf), Time(w)), MovingAverageStream::new(rf(&inq), Time(w))),
    }
    out
}

/// Two filters with *different* parameters alive at once, fed the same history in lockstep
/// (A.update, B.update, read both): the f32 outputs of each must be those of its solo run. Shared
/// state (a memo keyed by the interval only, a static weight) breaks this.
pub fn twin_history(ca: Cfg, cb: Cfg, h: &[Ev], e: &mut Eng) -> u64 {
    let t0 = 7 * S;
    let r = guard(|| {
        let solo_a = run_real(ca, h, t0);
        let solo_b = run_real(cb, h, t0);
        let ia = rc(Scr::<f32>::new(Ok(None)));
        let ib = rc(Scr::<f32>::new(Ok(None)));
        let mk = |c: Cfg, i: &std::rc::Rc<std::cell::RefCell<Scr<f32>>>| -> Box<dyn TwinFilter> {
            match c {
                Cfg::Ewma(s) => Box::new(EWMAStream::new(rf(i), s)),
                Cfg::Ma(w) => Box::new(MovingAverageStream::new(rf(i), Time(w))),
            }
        };
        let mut a = mk(ca, &ia);
        let mut b = mk(cb, &ib);
        let mut t = t0;
        let mut both = Vec::new();
        for (k, ev) in h.iter().enumerate() {
            let next: Output<f32, E> = match ev {
                Ev::P(d, v) => {
                    t += d;
                    Ok(Some(Datum::new(Time(t), *v)))
                }
                Ev::N => Ok(None),
                Ev::Er => Err(err_at(k)),
            };
            ia.borrow_mut().next = next.clone();
            ib.borrow_mut().next = next;
            let ua = obs_unit(&a.upd());
            let ub = obs_unit(&b.upd());
            let gb = b.read();
            let ga = a.read();
            both.push((ua, ga, ub, gb));
        }
        (solo_a, solo_b, both)
    });
    e.checks += h.len() as u64;
    match r {
        Err(m) => e.violation("filter:twins-panic", h.len(), || format!("{:?} and {:?} in lockstep on [{}] panicked: {}", ca, cb, show(h), m)),
        Ok((sa, sb, both)) => {
            for k in 0..h.len() {
                let (ua, ga, ub, gb) = both[k];
                if (ua, ga) != (sa[k].0, sa[k].1) || (ub, gb) != (sb[k].0, sb[k].1) {
                    e.violation("filter:instances-interfere", k + 1, || {
                        format!("{:?} and {:?} fed [{}] in lockstep: at event {} they give {} and {} but alone they give {} and {}", ca, cb, show(&h[..=k]), k, ga.show(), gb.show(), sa[k].1.show(), sb[k].1.show())
                    });
                    break;
                }
            }
            e.outcome(h64(&both));
        }
    }
    (4 * h.len()) as u64
}
trait TwinFilter {
    fn upd(&mut self) -> NothingOrError<E>;
    fn read(&self) -> Obs;
}
impl<G: Getter<f32, E>> TwinFilter for EWMAStream<f32, G, E> {
    fn upd(&mut self) -> NothingOrError<E> {
        self.update()
    }
    fn read(&self) -> Obs {
        obs(&self.get())
    }
}
impl<G: Getter<f32, E>> TwinFilter for MovingAverageStream<f32, G, E> {
    fn upd(&mut self) -> NothingOrError<E> {
        self.update()
    }
    fn read(&self) -> Obs {
        obs(&self.get())
    }
}

pub fn check_history(cfg: Cfg, h: &[Ev], e: &mut Eng) -> u64 {
    let n = h.len();
    let t0 = 7 * S;
    let cname = match cfg {
        Cfg::Ewma(_) => "ewma",
        Cfg::Ma(_) => "moving-average",
    };
    let main = match guard(|| run_real(cfg, h, t0)) {
        Ok(m) => m,
        Err(m) => {
            e.violation(&format!("filter:{}:panic", cname), n, || format!("{:?} history [{}]: update() panicked: {}", cfg, show(h), m));
            return n as u64;
        }
    };
    e.outcome(h64(&(format!("{:?}", cfg), &main)));
    // model bookkeeping
    let mut t = t0;
    let mut window: Vec<(i64, f32)> = Vec::new(); // samples since the last error (moving average keeps those inside the window)
    let mut prev_out: Option<(i64, f32)> = None; // EWMA: previous real output and its time
    let mut contrib: Vec<f32> = Vec::new(); // every sample since the last reset (EWMA convexity)
    let mut nontrivial = false;
    for (k, ev) in h.iter().enumerate() {
        e.checks += 1;
        let (uf, gf, uq, gq) = main[k];
        let fail = |e: &mut Eng, cls: &str, what: String| {
            e.violation(&format!("filter:{}:{}", cname, cls), k + 1, || format!("{:?} history [{}]: at event {}: {}", cfg, show(&h[..=k]), k, what));
        };
        // the two payload variants agree (category, time, value within 2 ulp)
        let var_ok = uf == uq && gf.tag == gq.tag && (gf.tag != 1 || (gf.time == gq.time && ulps(gf.f(0), gq.f(0), gf.f(0).abs() as f64) <= 2.0 && gq.bits[3] == unit_code(MILLIMETER) as u32));
        if !var_ok {
            fail(e, "variants-differ", format!("f32 variant gives (update {}, {}) but Quantity variant gives (update {}, {})", uf, gf.show(), uq, gq.show()));
            return n as u64;
        }
        match ev {
            Ev::Er => {
                window.clear();
                contrib.clear();
                prev_out = None;
                if uf != obs_unit(&Err(err_at(k))) {
                    fail(e, "update-result", format!("update() did not return the input's error {:?} (code {})", err_at(k), uf));
                    return n as u64;
                }
            }
            Ev::N => {
                // ignored: output unchanged unless an error was cached
                if uf != 0 {
                    fail(e, "update-result", "update() on an absent input returned an error".to_string());
                    return n as u64;
                }
                if k > 0 && !main[k - 1].1.is_err() && gf != main[k - 1].1 {
                    fail(e, "absent-changes-output", format!("get() changed from {} to {} on an absent input", main[k - 1].1.show(), gf.show()));
                    return n as u64;
                }
            }
            Ev::P(d, v) => {
                t += d;
                contrib.push(*v);
                if uf != 0 || !gf.is_some() || gf.time != t {
                    fail(e, "present", format!("update() = {}, get() = {} but a present sample at time {} must give a present output with that time", uf, gf.show(), t));
                    return n as u64;
                }
                let got = gf.f(0);
                match cfg {
                    Cfg::Ewma(s) => {
                        match prev_out {
                            None => {
                                if got != *v {
                                    fail(e, "first-sample", format!("first sample {} returned as {}", v, got));
                                    return n as u64;
                                }
                            }
                            Some((tp, p)) => {
                                nontrivial = true;
                                let dt32 = (t - tp) as f32 / 1_000_000_000.0;
                                // (the build's own power function; a back end that itself panics on these
                                // arguments - micromath with overflow checks on, at base 0 - leaves nothing to judge)
                                let pws = (backend_powf_checked(1.0 - s, dt32), backend_powf_checked(1.0 - s, dt32 * (1.0 - 2.0 * f32::EPSILON)), backend_powf_checked(1.0 - s, dt32 * (1.0 + 2.0 * f32::EPSILON)));
                                let (pw0, pw_lo, pw_hi) = match pws {
                                    (Some(a), Some(b), Some(c)) => (a, b, c),
                                    _ => return n as u64,
                                };
                                let lam32 = 1.0f32 - pw0;
                                let lam = lam32 as f64;
                                let reference = p as f64 * (1.0 - lam) + *v as f64 * lam;
                                let scale = (p.abs() + v.abs()) as f64;
                                // dt may legitimately be rounded differently by one ulp: allow the induced change of lambda
                                let dt_lo = pw_lo as f64;
                                let dt_hi = pw_hi as f64;
                                let lam_slack = (dt_lo - dt_hi).abs() + 4.0 * EPS;
                                let tol = 4.0 * EPS * scale + lam_slack * (p as f64 - *v as f64).abs();
                                if !((got as f64 - reference).abs() <= tol) {
                                    fail(e, "value", format!("previous output {} at {}, new sample {} at {} (dt {} s, smoothing {}): lambda = 1-(1-s)^dt = {} so prev*(1-L)+new*L = {} but get() = {}", p, tp, v, t, dt32, s, lam, reference, got));
                                    return n as u64;
                                }
                                // convexity step-locally
                                let (lo, hi) = (p.min(*v) as f64, p.max(*v) as f64);
                                if (0.0..=1.0).contains(&s) && !((got as f64) >= lo - 2.0 * EPS * scale && (got as f64) <= hi + 2.0 * EPS * scale) {
                                    fail(e, "not-convex", format!("output {} lies outside [{}, {}]", got, lo, hi));
                                    return n as u64;
                                }
                            }
                        }
                        prev_out = Some((t, got));
                    }
                    Cfg::Ma(w) => {
                        window.push((t, *v));
                        while window[0].0 <= t - w {
                            window.remove(0);
                        }
                        if window.len() >= 2 {
                            nontrivial = true;
                        }
                        // weights: interval each retained sample covers; non-negative, sum = window
                        let mut acc = Tr::exact(0.0);
                        let mut start = t - w;
                        let mut wsum = 0i64;
                        for &(ti, vi) in &window {
                            let wi = ti - start;
                            assert!(wi >= 0);
                            wsum += wi;
                            acc = acc.add(Tr::exact(vi).mul(secs(wi)));
                            start = ti;
                        }
                        assert_eq!(wsum, w, "reference weights must sum to the window");
                        let reference = acc.div(secs(w));
                        if !reference.agrees(got, 8.0) {
                            fail(e, "value", format!("window {} ns holds samples {:?}; time-weighted average = {} but get() = {}", w, window, reference.show(), got));
                            return n as u64;
                        }
                        if window.len() == 1 && ulps(got, *v, v.abs() as f64) > 2.0 {
                            fail(e, "first-sample", format!("a lone sample {} in the window returned as {}", v, got));
                            return n as u64;
                        }
                    }
                }
                // global convexity and constant-in => constant-out
                let lo = contrib.iter().cloned().fold(f32::INFINITY, f32::min) as f64;
                let hi = contrib.iter().cloned().fold(f32::NEG_INFINITY, f32::max) as f64;
                let scale = lo.abs().max(hi.abs());
                let smooth_ok = match cfg {
                    Cfg::Ewma(s) => (0.0..=1.0).contains(&s),
                    _ => true,
                };
                if smooth_ok && !((got as f64) >= lo - 4.0 * EPS * scale * contrib.len() as f64 && (got as f64) <= hi + 4.0 * EPS * scale * contrib.len() as f64) {
                    fail(e, "not-convex", format!("output {} lies outside the range [{}, {}] of the samples since the last reset", got, lo, hi));
                    return n as u64;
                }
            }
        }
    }
    if nontrivial {
        e.nontrivial += 1;
    }
    n as u64
}

pub fn syms() -> Vec<Ev> {
    let mut v = Vec::new();
    for dt in [0i64, 1, S / 2, 3 * S] {
        for x in [-4.0f32, 1.0, 10.0] {
            v.push(Ev::P(dt, x));
        }
    }
    v.push(Ev::N);
    v.push(Ev::Er);
    v
}
pub fn cfgs() -> Vec<Cfg> {
    vec![Cfg::Ma(1), Cfg::Ma(S / 2), Cfg::Ma(2 * S), Cfg::Ma(3600 * S), Cfg::Ewma(0.0), Cfg::Ewma(0.25), Cfg::Ewma(0.5), Cfg::Ewma(1.0)]
}

pub fn run(ctx: &Ctx) -> Vec<Eng> {
    let budget = Budget::secs(if ctx.thorough { 2000 } else { 120 });
    let depth = if ctx.thorough { 6 } else { 5 };
    let sy = syms();
    let mut e1 = Eng::new(
        "c12-seqs",
        "all histories of exactly `depth` events over {P(dt,v): dt in {0,1ns,0.5s,3s} (non-decreasing, possibly repeated timestamps), v in {-4,1,10}} + {N,E1} x windows {1ns,0.5s,2s,1h} and smoothing {0,0.25,0.5,1}; f32 and Quantity variants driven in lockstep; oracles per event: no panic; moving average = time-weighted mean of the samples inside the window (weights >= 0 summing to the window; f64 reference with forward-error bound); EWMA = prev*(1-L)+new*L with L from the same build's powf; output within [min,max] of contributing samples; first/lone sample returned; absent inputs change nothing; variants agree within 2 ulp; non-trivial = an output that mixes at least two samples",
        &format!("depth {} => 14^{} histories x 8 filter configurations", depth, depth),
    );
    for cfg in cfgs() {
        par_seqs(&mut e1, sy.len(), depth, budget, |seq, e| {
            let h: Vec<Ev> = seq.iter().map(|&s| sy[s]).collect();
            let a = check_history(cfg, &h, e);
            e.sample(|| format!("{:?} [{}]", cfg, show(&h)));
            a
        });
    }
    let (hz, k) = if ctx.thorough { (64, 3) } else { (40, 2) };
    let mut e2 = Eng::new(
        "c12-deviations",
        "all histories of exactly H events differing from the default stream P(0.5 s, cycle {-4,1,10}) in at most k positions, deviations {N, E1, P(+0), P(+1ns), P(+3s), P(+1h)}; 8 filter configurations",
        &format!("H={} k={}", hz, k),
    );
    let cases = deviation_cases(hz, 6, k);
    let cyc = [-4.0f32, 1.0, 10.0];
    for cfg in cfgs() {
        par_cases(&mut e2, &cases, budget, |c, e| {
            let mut h: Vec<Ev> = (0..hz).map(|i| Ev::P(S / 2, cyc[i % 3])).collect();
            for &(p, a) in c {
                let v = cyc[(p as usize + 1) % 3];
                h[p as usize] = match a {
                    0 => Ev::N,
                    1 => Ev::Er,
                    2 => Ev::P(0, v),
                    3 => Ev::P(1, v),
                    4 => Ev::P(3 * S, v),
                    _ => Ev::P(3600 * S, v),
                };
            }
            e.executions += 1;
            e.states += 1;
            e.max_depth = e.max_depth.max(hz as u64);
            e.transitions += check_history(cfg, &h, e);
            if c.len() == k {
                e.sample(|| format!("{:?} [{}]", cfg, show(&h)));
            }
        });
    }
    let (ph, maxp) = if ctx.thorough { (64, 5) } else { (40, 4) };
    let mut e3 = Eng::new(
        "c12-periodic",
        "periodic histories: every primitive word of length <= p over {P(+0.5 s), P(+0), P(+3 s), N, E1} repeated to H events (values cycle through {-4,1,10}), and every history differing from one of these in exactly one position; 8 filter configurations (window fill levels and many resets in a regular pattern)",
        &format!("H={} p<={} => {} histories x 8 configurations", ph, maxp, periodic_count(5, maxp, ph)),
    );
    for cfg in cfgs() {
        par_periodic(&mut e3, 5, maxp, ph, budget, |seq, e| {
            let h: Vec<Ev> = seq
                .iter()
                .enumerate()
                .map(|(i, &s)| match s {
                    0 => Ev::P(S / 2, cyc[i % 3]),
                    1 => Ev::P(0, cyc[i % 3]),
                    2 => Ev::P(3 * S, cyc[i % 3]),
                    3 => Ev::N,
                    _ => Ev::Er,
                })
                .collect();
            e.sample(|| format!("{:?} [{}]", cfg, show(&h)));
            check_history(cfg, &h, e)
        });
        par_long(&mut e3, 5, 2, &LONG_LENS, budget, |seq, e| {
            let h: Vec<Ev> = seq
                .iter()
                .enumerate()
                .map(|(i, &s)| match s {
                    0 => Ev::P(S / 2, cyc[i % 3]),
                    1 => Ev::P(0, cyc[i % 3]),
                    2 => Ev::P(3 * S, cyc[i % 3]),
                    3 => Ev::N,
                    _ => Ev::Er,
                })
                .collect();
            check_history(cfg, &h, e)
        });
    }
    e3.bounds.push_str(&format!("; plus long runs: every primitive word of length <= 2 repeated to 255..257 and 511..513 events followed by one event of each kind ({} histories x 8 configurations)", long_count(5, 2, &LONG_LENS)));
    let grid = ratio_grid(if ctx.thorough { 32 } else { 16 }, 6);
    let mut e4 = Eng::new(
        "c12-ratio-sweeps",
        "8-sample histories whose consecutive sampling intervals alternate between d0 and d0*r (d0 in {7 ms, 0.5 s, 37 s}; pattern and its inverse), and histories at a fixed 0.5 s / 0.7 s rhythm whose filter parameter is swept (smoothing = r/(1+r) in (0,1); window = 0.9 s * r), for every ratio of a dense grid (2^(1/16) (thorough 2^(1/32)) steps over 2^-6..2^6 plus 1 +- 2^-k); same oracles as c12-seqs",
        &format!("{} ratios x (6 interval sweeps x 8 configurations + 2 parameter sweeps)", grid.len()),
    );
    {
        let pat_a: [i32; 8] = [0, 0, 1, 1, 0, 1, 0, 0];
        let mut cases: Vec<(usize, f64)> = Vec::new();
        for &r in &grid {
            for k in 0..6 {
                cases.push((k, r));
            }
        }
        for cfg in cfgs() {
            par_cases(&mut e4, &cases, budget, |&(k, r), e| {
                e.executions += 1;
                e.states += 1;
                e.max_depth = e.max_depth.max(8);
                let d0 = [7_000_000i64, S / 2, 37 * S][k % 3] as f64;
                let inv = k >= 3;
                let h: Vec<Ev> = (0..8).map(|i| Ev::P((d0 * if (pat_a[i] == 1) != inv { r } else { 1.0 }).round().max(1.0) as i64, cyc[i % 3])).collect();
                e.sample(|| format!("{:?} ratio {:.5} [{}]", cfg, r, show(&h)));
                e.transitions += check_history(cfg, &h, e);
            });
        }
        par_cases(&mut e4, &grid, budget, |&r, e| {
            let h: Vec<Ev> = (0..8).map(|i| Ev::P([S / 2, 700_000_000][i % 2], cyc[i % 3])).collect();
            for cfg in [Cfg::Ewma((r / (1.0 + r)) as f32), Cfg::Ma(((0.9e9 * r).round() as i64).max(1))] {
                e.executions += 1;
                e.states += 1;
                e.transitions += check_history(cfg, &h, e);
            }
        });
    }
    let tdepth = if ctx.thorough { 4 } else { 3 };
    let mut e5 = Eng::new(
        "c12-interleaved-twins",
        "two filters with different parameters alive at once and fed the same history in lockstep: every history of `depth` events x every ordered pair of distinct filter configurations (4 windows, 4 smoothing constants): the outputs of each must be those of its solo run (state shared between instances - a memo keyed by the interval only - breaks this)",
        &format!("depth {} => {}^{} histories x 56 configuration pairs", tdepth, sy.len(), tdepth),
    );
    {
        let cf = cfgs();
        let mut pairs: Vec<(Cfg, Cfg)> = Vec::new();
        for &a in &cf {
            for &b in &cf {
                if a != b {
                    pairs.push((a, b));
                }
            }
        }
        for (ca, cb) in pairs {
            par_seqs(&mut e5, sy.len(), tdepth, budget, |seq, e| {
                let h: Vec<Ev> = seq.iter().map(|&s| sy[s]).collect();
                e.nontrivial += 1;
                twin_history(ca, cb, &h, e)
            });
        }
    }
    // window occupancy levels: windows that hold W samples of the default rhythm, histories long
    // enough for the window to fill, for an irregularity to travel through it and to leave it
    let fills: Vec<usize> = if ctx.thorough { vec![2, 3, 5, 8, 15, 16, 17, 31, 32, 33, 34, 47, 63, 64, 65, 100] } else { vec![2, 3, 8, 16, 31, 32, 33, 40, 64, 65] };
    let mut e6 = Eng::new(
        "c12-window-fill",
        "moving averages (f32 and Quantity in lockstep) whose window holds W samples of the default stream P(0.5 s, cycle {-4,1,10}) (window = (W - 1/2) x 0.5 s), histories of 2W + 8 events differing from the default in at most k positions, deviations {N, E1, P(+0), P(+1ns), P(+0.2 s), P(+1.3 s), P(+3 s)}: the window fills to W samples, the irregular sample(s) travel through it and leave it (several samples leaving in one update, unevenly spaced); same oracles as c12-seqs (time-weighted mean of the window's samples, convexity, variants agree, no panic); an implementation that switches algorithm with the number of samples in the window (running sums, ring buffers, block summation) is exercised on both sides of each switch point",
        &format!("W in {:?}; k = 1{}", fills, if ctx.thorough { ", and k = 2 for W <= 34" } else { "" }),
    );
    for &w in &fills {
        let hz = 2 * w + 8;
        let cfg = Cfg::Ma((2 * w as i64 - 1) * (S / 4));
        let kk = if ctx.thorough && w <= 34 { 2 } else { 1 };
        let cases = deviation_cases(hz, 7, kk);
        par_cases(&mut e6, &cases, budget, |c, e| {
            let mut h: Vec<Ev> = (0..hz).map(|i| Ev::P(S / 2, cyc[i % 3])).collect();
            for &(p, a) in c {
                let v = cyc[(p as usize + 1) % 3];
                h[p as usize] = match a {
                    0 => Ev::N,
                    1 => Ev::Er,
                    2 => Ev::P(0, v),
                    3 => Ev::P(1, v),
                    4 => Ev::P(S / 5, v),
                    5 => Ev::P(13 * (S / 10), v),
                    _ => Ev::P(3 * S, v),
                };
            }
            e.executions += 1;
            e.states += 1;
            e.max_depth = e.max_depth.max(hz as u64);
            e.transitions += check_history(cfg, &h, e);
            if c.len() == 1 && c[0].0 == 3 {
                e.sample(|| format!("{:?} [{}]", cfg, show(&h)));
            }
        });
    }
    let ew = crate::c05::wiring_engine("c12-input-wirings", &[4, 5, 6, 7, 15, 16], 5, budget);
    vec![e1, e2, e3, e4, e5, e6, ew]
}
