//! Reference models and numeric helpers shared between engines.

/// The power function of the build under test (std, libm or micromath back end), called
/// directly so that powf-dependent outputs can be judged per build.
/// `backend_powf` under a panic guard: None when the back end itself panics on these arguments
/// (micromath does for some special values once overflow checks are compiled in). What rrtk
/// computes through the same back end is then not judged.
pub fn backend_powf_checked(x: f32, y: f32) -> Option<f32> {
    crate::mc::guard(|| backend_powf(x, y)).ok()
}
pub fn backend_powf(x: f32, y: f32) -> f32 {
    #[cfg(feature = "std")]
    {
        x.powf(y)
    }
    #[cfg(all(feature = "libm", not(feature = "std")))]
    {
        libm::powf(x, y)
    }
    #[cfg(all(feature = "micromath", not(feature = "std"), not(feature = "libm")))]
    {
        use micromath::F32Ext;
        F32Ext::powf(x, y)
    }
}

const EPS: f64 = f32::EPSILON as f64; // 2^-23
const U: f64 = EPS / 2.0; // unit roundoff of f32

/// Reference value computed in f64 together with
///  * `err`: a running forward-error bound for a straightforward f32 evaluation of the same
///    formula (each operation adds one f32 rounding of its result and propagates its
///    operands' errors), and
///  * a robust exactness certificate: when every input is a dyadic rational and the total
///    magnitude of all terms stays below 2^24 units of the finest bit involved (`lsb`),
///    *every* evaluation order is exact in f32, so bit equality can be demanded without
///    favouring one association order.
#[derive(Clone, Copy, Debug)]
pub struct Tr {
    pub v: f64,
    pub err: f64,
    /// exponent of the finest bit any term may occupy (i32::MAX for an exact zero)
    pub lsb: i32,
    /// upper bound on the sum of magnitudes of all terms that were combined
    pub mag: f64,
    pub robust: bool,
}
fn lsb_of(v: f64) -> i32 {
    if v == 0.0 {
        return i32::MAX;
    }
    let bits = v.to_bits();
    let exp = ((bits >> 52) & 0x7ff) as i32;
    let mant = bits & ((1u64 << 52) - 1);
    if exp == 0 {
        return -1074 + mant.trailing_zeros() as i32;
    }
    let tz = if mant == 0 { 52 } else { mant.trailing_zeros() as i32 };
    exp - 1075 + tz
}
impl Tr {
    /// an input that is an f32 value (no error)
    pub fn exact(v: f32) -> Tr {
        let v = v as f64;
        Tr { v, err: 0.0, lsb: lsb_of(v), mag: v.abs(), robust: true }
    }
    /// an f64 reference of something the implementation obtains with `roundings` f32 roundings
    pub fn approx(v: f64, roundings: u32) -> Tr {
        let ex = crate::mc::exact32(v);
        Tr { v, err: if ex { 0.0 } else { roundings as f64 * U * v.abs() }, lsb: lsb_of(v), mag: v.abs(), robust: ex }
    }
    fn chk(mut self) -> Tr {
        // all orders exact iff the span between total magnitude and finest bit fits in 24 bits
        if self.robust && self.lsb != i32::MAX {
            let limit = (2.0f64).powi(self.lsb.saturating_add(24).clamp(-1000, 1000));
            if !(self.mag < limit) || self.lsb < -140 || self.mag > 1e37 {
                self.robust = false;
            }
        }
        if !self.robust {
            self.err += U * self.v.abs();
        } else {
            self.err = 0.0;
        }
        self
    }
    pub fn add(self, o: Tr) -> Tr {
        Tr { v: self.v + o.v, err: self.err + o.err, lsb: self.lsb.min(o.lsb), mag: self.mag + o.mag, robust: self.robust && o.robust }.chk()
    }
    pub fn sub(self, o: Tr) -> Tr {
        Tr { v: self.v - o.v, err: self.err + o.err, lsb: self.lsb.min(o.lsb), mag: self.mag + o.mag, robust: self.robust && o.robust }.chk()
    }
    pub fn mul(self, o: Tr) -> Tr {
        let lsb = if self.lsb == i32::MAX || o.lsb == i32::MAX { i32::MAX } else { self.lsb + o.lsb };
        Tr {
            v: self.v * o.v,
            err: self.v.abs() * o.err + o.v.abs() * self.err + self.err * o.err,
            lsb,
            mag: self.mag * o.mag,
            robust: self.robust && o.robust,
        }
        .chk()
    }
    pub fn div(self, o: Tr) -> Tr {
        let pow2 = o.v != 0.0 && o.v.abs().log2().fract() == 0.0;
        let denom = (o.v.abs() - o.err).max(f64::MIN_POSITIVE);
        let q = self.v / o.v;
        let lsb = if self.lsb == i32::MAX { i32::MAX } else if pow2 { self.lsb - o.v.abs().log2() as i32 } else { self.lsb };
        Tr {
            v: q,
            err: (self.err + q.abs() * o.err) / denom,
            lsb,
            mag: self.mag / o.v.abs(),
            robust: self.robust && o.robust && pow2,
        }
        .chk()
    }
    pub fn neg(self) -> Tr {
        Tr { v: -self.v, ..self }
    }
    /// Judge an f32 result: bit-for-bit (as values) when the certificate holds, otherwise
    /// within k times the running error bound.
    pub fn agrees(&self, got: f32, k: f64) -> bool {
        if !self.v.is_finite() || self.v.abs() > 3e38 {
            return true; // outside the domain the oracle speaks about
        }
        if self.robust {
            return got as f64 == self.v;
        }
        let g = got as f64;
        g.is_finite() && (g - self.v).abs() <= k * self.err + U * self.v.abs() + 1e-44
    }
    /// The same with a bound that does not favour one evaluation order: besides the running bound
    /// of this formula, k roundings relative to the sum of the magnitudes of all terms (another
    /// association may pass through larger intermediate values than this one does).
    pub fn agrees_any_order(&self, got: f32, k: f64) -> bool {
        if !self.v.is_finite() || self.v.abs() > 3e38 {
            return true;
        }
        if self.robust {
            return got as f64 == self.v;
        }
        let g = got as f64;
        g.is_finite() && (g - self.v).abs() <= k * (self.err + U * self.mag) + U * self.v.abs() + 1e-44
    }
    pub fn show(&self) -> String {
        if self.robust {
            format!("{:?} (exact)", self.v)
        } else {
            format!("{:?} +- {:.3e}", self.v, self.err)
        }
    }
}

/// seconds of a nanosecond interval as the crate computes it: (ns as f32) / 1e9.
/// Exact only if the nanosecond count itself is representable in f32 (e.g. 2.25e9 is not:
/// it needs 25 bits) and the quotient is representable; otherwise two roundings.
pub fn secs(ns: i64) -> Tr {
    let v = ns as f64 / 1e9;
    let f = ns as f32;
    let ns_exact = f as f64 == ns as f64;
    if ns_exact && crate::mc::exact32(v) {
        Tr { v, err: 0.0, lsb: lsb_of(v), mag: v.abs(), robust: true }
    } else {
        Tr { v, err: 2.0 * U * v.abs(), lsb: lsb_of(v), mag: v.abs(), robust: false }
    }
}
