//! reference models shared between engines
