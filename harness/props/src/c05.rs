//! C05 — stateful streams: no stale errors, reset erases history, get is pure; freeze machine.
use crate::env::*;
use crate::mc::*;
use crate::Ctx;
use rrtk::streams::control::*;
use rrtk::streams::converters::*;
use rrtk::streams::flow::*;
use rrtk::streams::math::*;
use rrtk::*;
use std::cell::RefCell;
use std::rc::Rc;

#[derive(Clone, Copy, Debug, PartialEq, Eq)]
pub enum Ev {
    P(usize),
    N,
    Er(u8),
}
pub const VALS: [f32; 2] = [1.0, -2.0];

pub fn ev_name(e: &Ev) -> String {
    match e {
        Ev::P(i) => format!("P({})", VALS[*i]),
        Ev::N => "N".into(),
        Ev::Er(0) => "FromNone".to_string(),
        Ev::Er(c) => format!("E{}", c),
    }
}
pub fn hist_name(h: &[Ev]) -> String {
    h.iter().map(ev_name).collect::<Vec<_>>().join(",")
}

/// A real stream under test together with its scripted input.
pub trait Subj {
    fn feed(&mut self, ev: &Ev, t: i64);
    fn poison(&mut self);
    fn update(&mut self) -> u32;
    fn get(&self) -> Obs;
}

thread_local! {
    /// how the scripted input is handed to the stream under test: 0 = concrete type behind an
    /// Rc<RefCell> Reference (default), 1 = raw-pointer Reference, 2 = trait-object input type
    /// `Reference<dyn Getter>`, 3 = Arc<Mutex> Reference, 4 = Arc<RwLock> Reference
    pub static WIRING: std::cell::Cell<u8> = std::cell::Cell::new(0);
}
pub const WIRING_NAMES: [&str; 6] = ["Rc<RefCell> (concrete input type)", "raw pointer", "Reference<dyn Getter>", "Arc<Mutex>", "Arc<RwLock>", "Rc<RefCell>, and the command followed from a constant command getter"];
enum Holder<I: Clone> {
    Rc(Rc<RefCell<Scr<I>>>),
    #[cfg(feature = "std")]
    Mx(std::sync::Arc<std::sync::Mutex<Scr<I>>>),
    #[cfg(feature = "std")]
    Rw(std::sync::Arc<std::sync::RwLock<Scr<I>>>),
}
impl<I: Clone> Holder<I> {
    fn set_next(&self, o: Output<I, E>) {
        match self {
            Holder::Rc(r) => r.borrow_mut().next = o,
            #[cfg(feature = "std")]
            Holder::Mx(m) => m.lock().unwrap().next = o,
            #[cfg(feature = "std")]
            Holder::Rw(r) => r.write().unwrap().next = o,
        }
    }
}
struct Sub<I: Clone, S> {
    inp: Holder<I>,
    s: S,
    mk: fn(f32) -> I,
    g: fn(&S) -> Obs,
    u: fn(&mut S) -> NothingOrError<E>,
}
impl<I: Clone, S> Subj for Sub<I, S> {
    fn feed(&mut self, ev: &Ev, t: i64) {
        self.inp.set_next(match ev {
            Ev::P(i) => Ok(Some(Datum::new(Time(t), (self.mk)(VALS[*i])))),
            Ev::N => Ok(None),
            Ev::Er(c) => Err(err_val(*c)),
        });
    }
    fn poison(&mut self) {
        self.inp.set_next(Ok(Some(Datum::new(Time(-777), (self.mk)(12345.0)))));
    }
    fn update(&mut self) -> u32 {
        obs_unit(&(self.u)(&mut self.s))
    }
    fn get(&self) -> Obs {
        (self.g)(&self.s)
    }
}

pub const KIND_NAMES: [&str; 17] = [
    "pid",
    "command_pid_position",
    "command_pid_velocity",
    "command_pid_acceleration",
    "ewma_f32",
    "ewma_quantity",
    "moving_average_f32",
    "moving_average_quantity",
    "integral",
    "derivative",
    "acceleration_to_state",
    "velocity_to_state",
    "position_to_state",
    "float_to_quantity",
    "quantity_to_float",
    "moving_average_f32_long_window",
    "moving_average_quantity_long_window",
];
/// (reset on absent, reset on error, ignores absent, memoryless)
pub fn policy(kind: usize) -> (bool, bool, bool, bool) {
    match kind {
        0..=3 => (true, true, false, false),
        4..=7 => (false, true, true, false),
        8 | 9 => (true, true, false, false),
        10..=12 => (false, true, true, false),
        15 | 16 => (false, true, true, false),
        _ => (true, true, false, true),
    }
}

fn kvals() -> PositionDerivativeDependentPIDKValues {
    PositionDerivativeDependentPIDKValues::new(
        PIDKValues::new(2.0, 0.5, 0.25),
        PIDKValues::new(1.0, 0.25, 0.5),
        PIDKValues::new(0.5, 1.0, 2.0),
    )
}

/// CommandPID; under wiring 5 it additionally *follows* a command getter that keeps returning the
/// very command it was constructed with (every update then re-sets the same command, which by
/// C11 changes nothing)
fn cpid<G: Getter<State, E> + ?Sized>(r: Reference<G>, c: Command) -> CommandPID<G, E> {
    let mut p = CommandPID::new(r, c, kvals());
    if WIRING.with(|w| w.get()) == 5 {
        let g = rc(Scr::<Command>::new(Ok(Some(Datum::new(Time(0), c)))));
        p.follow(dyn_getter(&g));
    }
    p
}
pub fn make(kind: usize) -> Box<dyn Subj> {
    macro_rules! sub {
        // streams whose constructor does not accept an unsized input type: no trait-object wiring
        (nodyn $I:ty, $mk:expr, $ctor:expr) => {{
            let w = WIRING.with(|w| w.get());
            if w == 2 {
                WIRING.with(|x| x.set(0));
            }
            let b = sub!(@go false, $I, $mk, $ctor);
            WIRING.with(|x| x.set(w));
            b
        }};
        ($I:ty, $mk:expr, $ctor:expr) => {
            sub!(@go true, $I, $mk, $ctor)
        };
        (@go $dynok:tt, $I:ty, $mk:expr, $ctor:expr) => {{
            macro_rules! fin {
                ($holder:expr, $reference:expr) => {{
                    let s = $ctor($reference);
                    let b: Box<dyn Subj> = Box::new(Sub { inp: $holder, s, mk: $mk, g: |s| obs(&s.get()), u: |s| s.update() });
                    b
                }};
            }
            let wiring = WIRING.with(|w| w.get());
            match wiring {
                1 => {
                    let inp = rc(Scr::<$I>::new(Ok(None)));
                    let r: Reference<Scr<$I>> = unsafe { Reference::from_ptr(inp.as_ptr()) };
                    fin!(Holder::Rc(inp), r)
                }
                2 => sub!(@dyn $dynok, $I, $mk, $ctor),
                #[cfg(feature = "std")]
                3 => {
                    let a = std::sync::Arc::new(std::sync::Mutex::new(Scr::<$I>::new(Ok(None))));
                    let r: Reference<Scr<$I>> = Reference::from_arc_mutex(a.clone());
                    fin!(Holder::Mx(a), r)
                }
                #[cfg(feature = "std")]
                4 => {
                    let a = std::sync::Arc::new(std::sync::RwLock::new(Scr::<$I>::new(Ok(None))));
                    let r: Reference<Scr<$I>> = Reference::from_arc_rw_lock(a.clone());
                    fin!(Holder::Rw(a), r)
                }
                _ => {
                    let inp = rc(Scr::<$I>::new(Ok(None)));
                    let r = rf(&inp);
                    fin!(Holder::Rc(inp), r)
                }
            }
        }};
        (@dyn true, $I:ty, $mk:expr, $ctor:expr) => {{
            let inp = rc(Scr::<$I>::new(Ok(None)));
            let r: Reference<dyn Getter<$I, E>> = dyn_getter(&inp);
            let s = $ctor(r);
            let b: Box<dyn Subj> = Box::new(Sub { inp: Holder::Rc(inp), s, mk: $mk, g: |s| obs(&s.get()), u: |s| s.update() });
            b
        }};
        (@dyn false, $I:ty, $mk:expr, $ctor:expr) => {{
            unreachable!()
        }};
    }
    fn st(v: f32) -> State {
        State::new_raw(v, v / 2.0, v / 4.0)
    }
    match kind {
        0 => sub!(f32, |v| v, |r| PIDControllerStream::new(r, 5.0, PIDKValues::new(2.0, 0.5, 0.25))),
        1 => sub!(State, st, |r| cpid(r, Command::Position(3.0))),
        2 => sub!(State, st, |r| cpid(r, Command::Velocity(3.0))),
        3 => sub!(State, st, |r| cpid(r, Command::Acceleration(3.0))),
        4 => sub!(f32, |v| v, |r| EWMAStream::new(r, 0.5)),
        5 => sub!(Quantity, |v| Quantity::new(v, MILLIMETER), |r| EWMAStream::new(r, 0.5)),
        6 => sub!(f32, |v| v, |r| MovingAverageStream::new(r, Time(5 * S / 2))),
        7 => sub!(Quantity, |v| Quantity::new(v, MILLIMETER), |r| MovingAverageStream::new(r, Time(5 * S / 2))),
        8 => sub!(Quantity, |v| Quantity::new(v, MILLIMETER), |r| IntegralStream::new(r)),
        9 => sub!(Quantity, |v| Quantity::new(v, MILLIMETER), |r| DerivativeStream::new(r)),
        10 => sub!(Quantity, |v| Quantity::new(v, MILLIMETER_PER_SECOND_SQUARED), |r| AccelerationToState::new(r)),
        11 => sub!(Quantity, |v| Quantity::new(v, MILLIMETER_PER_SECOND), |r| VelocityToState::new(r)),
        12 => sub!(Quantity, |v| Quantity::new(v, MILLIMETER), |r| PositionToState::new(r)),
        13 => sub!(nodyn f32, |v| v, |r| FloatToQuantity::new(MILLIMETER_PER_SECOND, r)),
        14 => sub!(Quantity, |v| Quantity::new(v, MILLIMETER), |r| QuantityToFloat::new(r)),
        15 => sub!(f32, |v| v, |r| MovingAverageStream::new(r, Time(1000 * S))),
        16 => sub!(Quantity, |v| Quantity::new(v, MILLIMETER), |r| MovingAverageStream::new(r, Time(1000 * S))),
        _ => unreachable!(),
    }
}

/// Run history h (absolute times: event k at (k+1) s, or the given times) with get() called
/// twice per step around an input poisoning; returns (update result, get) per step.
pub fn run_full(kind: usize, h: &[Ev], times: &[i64], impure: &mut bool) -> Vec<(u32, Obs)> {
    let mut s = make(kind);
    let mut out = Vec::with_capacity(h.len());
    for (k, ev) in h.iter().enumerate() {
        s.feed(ev, times[k]);
        let u = s.update();
        let g1 = s.get();
        s.poison();
        let g2 = s.get();
        let g3 = s.get();
        if g1 != g2 || g2 != g3 {
            *impure = true;
        }
        out.push((u, g1));
    }
    out
}
/// The history oracles again with the scripted input handed over in other ways than the harness'
/// default (a concrete getter type behind an Rc<RefCell> Reference): a raw-pointer Reference, the
/// trait-object input type `Reference<dyn Getter>`, Arc<Mutex> and Arc<RwLock> References. A
/// stream sees its input only through `get()`; how the input is held must not matter.
pub fn wiring_engine(name: &str, kinds: &[usize], depth: usize, budget: Budget) -> Eng {
    let nw = if cfg!(feature = "std") { 4 } else { 2 };
    let mut e = Eng::new(
        name,
        "all histories of `depth` events over {P(1), P(-2), N, E1, FromNone} with the scripted input wired in through a raw-pointer Reference, through the trait-object input type Reference<dyn Getter>, and (std builds) through Arc<Mutex> and Arc<RwLock> References, instead of the default concrete getter behind Rc<RefCell> (command PIDs also with their command followed from a getter that keeps returning it); the whole (update result, get) trace must be bit-identical to the trace under the default wiring, and the oracles of c05-seqs (no stale error, reset == fresh stream, deletion of ignored absents, get purity) must hold - a stream may depend on what its input returns, never on how the input is held; non-trivial as in c05-seqs",
        &format!("depth {} => 5^{} histories x {} wirings x {} streams", depth, depth, nw, kinds.len()),
    );
    let mut ws: Vec<u8> = (1..=nw as u8).collect();
    ws.push(5);
    for w in ws {
        for &kind in kinds {
            if w == 5 && !(1..=3).contains(&kind) {
                continue;
            }
            par_seqs(&mut e, 5, depth, budget, |seq, e| {
                let h: Vec<Ev> = seq.iter().map(|&s| SYMS[s]).collect();
                let times: Vec<i64> = (0..h.len()).map(|k| (k as i64 + 1) * S).collect();
                let before = e.viol.len();
                // differential: the same history under the default wiring must give the same trace
                let mut imp = false;
                let base = guard(|| run_full(kind, &h, &times, &mut imp));
                WIRING.with(|x| x.set(w));
                let other = guard(|| run_full(kind, &h, &times, &mut imp));
                e.checks += 1;
                if base != other {
                    e.violation(&format!("stateful:{}:depends-on-input-wiring", KIND_NAMES[kind]), h.len(), || {
                        format!("{} fed [{}]: with the input wired through {} the (update, get) trace is {:?} but through {} it is {:?}", KIND_NAMES[kind], hist_name(&h), WIRING_NAMES[w as usize], other.as_ref().map(|v| v.iter().map(|x| (x.0, x.1.show())).collect::<Vec<_>>()), WIRING_NAMES[0], base.as_ref().map(|v| v.iter().map(|x| (x.0, x.1.show())).collect::<Vec<_>>()))
                    });
                }
                let a = check_history(kind, &h, e);
                WIRING.with(|x| x.set(0));
                if e.viol.len() > before {
                    // tag the wiring into the newest witness
                    e.notes.push(format!("a violation first appeared with the input wired through {}", WIRING_NAMES[w as usize]));
                }
                a
            });
        }
    }
    e
}

/// Two streams of the same type alive at once, fed *different* histories in lockstep (A step, B
/// step, A step, ...; B's clock runs 0.25 s ahead): each must behave exactly as it does alone.
/// State that has moved from the object into something shared (a static cache, a module-level
/// scratch value, a counter) makes the interleaved run differ from the solo runs.
pub fn twins(kind: usize, ha: &[Ev], hb: &[Ev], e: &mut Eng) -> u64 {
    let n = ha.len().min(hb.len());
    let ta: Vec<i64> = (0..n).map(|k| (k as i64 + 1) * S).collect();
    let tb: Vec<i64> = (0..n).map(|k| (k as i64 + 1) * S + S / 4).collect();
    let mut imp = false;
    let r = guard(|| {
        let solo_a = run_full(kind, &ha[..n], &ta, &mut imp);
        let solo_b = run_full(kind, &hb[..n], &tb, &mut imp);
        let mut a = make(kind);
        let mut b = make(kind);
        let mut both = Vec::with_capacity(n);
        for k in 0..n {
            a.feed(&ha[k], ta[k]);
            let ua = a.update();
            b.feed(&hb[k], tb[k]);
            let ub = b.update();
            // read B first, then A: a shared "last result" would show up in A's read
            let gb = b.get();
            let ga = a.get();
            both.push(((ua, ga), (ub, gb)));
        }
        (solo_a, solo_b, both)
    });
    e.checks += n as u64;
    match r {
        Err(m) => e.violation(&format!("stateful:{}:twins-panic", KIND_NAMES[kind]), n, || format!("two {} streams with histories [{}] and [{}] in lockstep panicked: {}", KIND_NAMES[kind], hist_name(ha), hist_name(hb), m)),
        Ok((sa, sb, both)) => {
            for k in 0..n {
                if both[k].0 != sa[k] || both[k].1 != sb[k] {
                    e.violation(&format!("stateful:{}:instances-interfere", KIND_NAMES[kind]), k + 1, || {
                        format!(
                            "two {} streams fed [{}] and [{}] in lockstep: at step {} they give (update {}, {}) and (update {}, {}) but alone they give (update {}, {}) and (update {}, {})",
                            KIND_NAMES[kind], hist_name(&ha[..=k]), hist_name(&hb[..=k]), k, both[k].0 .0, both[k].0 .1.show(), both[k].1 .0, both[k].1 .1.show(), sa[k].0, sa[k].1.show(), sb[k].0, sb[k].1.show()
                        )
                    });
                    break;
                }
            }
            e.outcome(h64(&both));
        }
    }
    (4 * n) as u64
}
/// Same history, but get() is only called once, after the last event.
pub fn run_lazy(kind: usize, h: &[Ev], times: &[i64]) -> Obs {
    let mut s = make(kind);
    for (k, ev) in h.iter().enumerate() {
        s.feed(ev, times[k]);
        let _ = s.update();
    }
    s.get()
}

thread_local! {
    /// clock pattern of `check_history`: 0 = +1 s per event (default); the filters (EWMA, moving
    /// average) accept non-decreasing, possibly repeated timestamps, for them also 1 = every
    /// timestamp used twice, 2 = the clock stands still, 3 = every timestamp used three times
    pub static CLOCK: std::cell::Cell<u8> = std::cell::Cell::new(0);
}
pub const CLOCK_NAMES: [&str; 4] = ["+1 s per event", "every timestamp used twice", "clock standing still", "every timestamp used three times (first one twice)"];
pub fn check_history(kind: usize, h: &[Ev], e: &mut Eng) -> u64 {
    let n = h.len();
    let times: Vec<i64> = (0..n)
        .map(|k| match CLOCK.with(|c| c.get()) {
            0 => (k as i64 + 1) * S,
            1 => (k as i64 / 2 + 1) * S,
            2 => S,
            _ => ((k as i64 + 1) / 3 + 1) * S,
        })
        .collect();
    let name = KIND_NAMES[kind];
    let (rst_n, rst_e, ign_n, memless) = policy(kind);
    let mut applied = 0u64;
    let mut impure = false;
    let main = match guard(|| run_full(kind, h, &times, &mut impure)) {
        Ok(m) => m,
        Err(m) => {
            e.violation(&format!("stateful:{}:panic", name), n, || format!("history [{}] panicked: {}", hist_name(h), m));
            return n as u64;
        }
    };
    applied += n as u64;
    e.outcome(h64(&(kind, &main)));
    if impure {
        e.violation(&format!("stateful:{}:get-impure", name), n, || {
            format!("history [{}]: repeated get() (with the input changed in between) returned different values", hist_name(h))
        });
    }
    // (a) no stale error
    for k in 0..n {
        e.checks += 1;
        let g = main[k].1;
        if g.is_err() {
            let ok = matches!(h[k], Ev::Er(c) if Obs::err(&err_val(c)) == g);
            if !ok {
                e.violation(&format!("stateful:{}:stale-error", name), k + 1, || {
                    format!("history [{}]: after event {} get() = {} although the input did not return that error at the most recent update", hist_name(&h[..=k]), k, g.show())
                });
                break;
            }
        }
    }
    // (d) lazy run agrees at the end
    match guard(|| run_lazy(kind, h, &times)) {
        Ok(g) => {
            e.checks += 1;
            if g != main[n - 1].1 {
                e.violation(&format!("stateful:{}:get-affects-later", name), n, || {
                    format!("history [{}]: final get() = {} when get() was called after every update, {} when it was not", hist_name(h), main[n - 1].1.show(), g.show())
                });
            }
        }
        Err(m) => e.violation(&format!("stateful:{}:panic", name), n, || format!("lazy run of [{}] panicked: {}", hist_name(h), m)),
    }
    applied += n as u64;
    // (b) reset equivalence: a fresh stream fed h[i..] agrees at every later step
    let mut nontrivial = false;
    for i in 0..n {
        let is_reset = memless
            || match h[i] {
                Ev::N => rst_n,
                Ev::Er(_) => rst_e,
                Ev::P(_) => false,
            };
        if !is_reset || i + 1 >= n {
            continue;
        }
        if h[i + 1..].iter().any(|x| matches!(x, Ev::P(_))) && i > 0 {
            nontrivial = true;
        }
        let mut imp2 = false;
        let fresh = match guard(|| run_full(kind, &h[i..], &times[i..], &mut imp2)) {
            Ok(f) => f,
            Err(_) => continue,
        };
        applied += (n - i) as u64;
        for j in i + 1..n {
            e.checks += 1;
            if fresh[j - i] != main[j] {
                e.violation(&format!("stateful:{}:reset-not-clean", name), n, || {
                    format!(
                        "history [{}]: event {} ({}) is a reset, but at event {} the stream gives (update {}, get {}) while a fresh stream fed only [{}] gives (update {}, get {})",
                        hist_name(h), i, ev_name(&h[i]), j, main[j].0, main[j].1.show(), hist_name(&h[i..]), fresh[j - i].0, fresh[j - i].1.show()
                    )
                });
                break;
            }
        }
    }
    // (c) deleting ignored absent events changes nothing at the surviving events
    if ign_n && h.iter().any(|x| *x == Ev::N) {
        let keep: Vec<usize> = (0..n).filter(|&k| h[k] != Ev::N).collect();
        if !keep.is_empty() {
            let h2: Vec<Ev> = keep.iter().map(|&k| h[k]).collect();
            let t2: Vec<i64> = keep.iter().map(|&k| times[k]).collect();
            let mut imp2 = false;
            if let Ok(del) = guard(|| run_full(kind, &h2, &t2, &mut imp2)) {
                applied += h2.len() as u64;
                nontrivial = true;
                for (idx, &k) in keep.iter().enumerate() {
                    e.checks += 1;
                    if del[idx] != main[k] {
                        e.violation(&format!("stateful:{}:absent-not-ignored", name), n, || {
                            format!(
                                "history [{}]: at event {} the stream gives (update {}, get {}) but with the absent events deleted it gives (update {}, get {})",
                                hist_name(h), k, main[k].0, main[k].1.show(), del[idx].0, del[idx].1.show()
                            )
                        });
                        break;
                    }
                }
            }
        }
    }
    if nontrivial {
        e.nontrivial += 1;
    }
    applied
}

/// the two error values are `Error::Other(1)` and the crate's own `Error::FromNone` (code 0)
pub const SYMS: [Ev; 5] = [Ev::P(0), Ev::P(1), Ev::N, Ev::Er(1), Ev::Er(0)];

// ---------------------------------------------------------------- freeze
#[derive(Clone, Copy, Debug, PartialEq, Eq)]
enum Cond {
    T,
    F,
    N,
    Er,
}
const CONDS: [Cond; 4] = [Cond::F, Cond::T, Cond::N, Cond::Er];
const FIN: [Ev; 4] = [Ev::P(0), Ev::P(1), Ev::N, Ev::Er(0)];

fn freeze_history(seq: &[usize], e: &mut Eng) -> u64 {
    let n = seq.len();
    let desc = |upto: usize| {
        seq[..=upto]
            .iter()
            .map(|&s| format!("({:?},{})", CONDS[s / 4], ev_name(&FIN[s % 4])))
            .collect::<Vec<_>>()
            .join(",")
    };
    let r = guard(|| {
        let cond = rc(Scr::<bool>::new(Ok(None)));
        let inp = rc(Scr::<f32>::new(Ok(None)));
        let mut fz = FreezeStream::new(rf(&cond), rf(&inp));
        let mut out = Vec::new();
        for (k, &s) in seq.iter().enumerate() {
            let t = (k as i64 + 1) * S;
            cond.borrow_mut().next = match CONDS[s / 4] {
                Cond::T => Ok(Some(Datum::new(Time(t), true))),
                Cond::F => Ok(Some(Datum::new(Time(t), false))),
                Cond::N => Ok(None),
                Cond::Er => Err(E1),
            };
            let input: Output<f32, E> = match FIN[s % 4] {
                Ev::P(i) => Ok(Some(Datum::new(Time(t - 1), VALS[i] + k as f32))),
                Ev::N => Ok(None),
                Ev::Er(c) => Err(err_val(c)),
            };
            inp.borrow_mut().next = input.clone();
            let u = fz.update();
            let g1 = obs(&fz.get());
            // poison both inputs: get() must not depend on them
            inp.borrow_mut().next = Ok(Some(Datum::new(Time(-5), 999.0)));
            cond.borrow_mut().next = Ok(Some(Datum::new(Time(-5), false)));
            let g2 = obs(&fz.get());
            out.push((obs_unit(&u), g1, g2, obs(&input)));
        }
        out
    });
    let out = match r {
        Ok(o) => o,
        Err(m) => {
            e.violation("freeze:panic", n, || format!("history [{}] panicked: {}", desc(n - 1), m));
            return n as u64;
        }
    };
    e.outcome(h64(&out));
    let mut constrained = false;
    let mut prev = Obs::NONE;
    let mut saw_freeze = false;
    for k in 0..n {
        let (_u, g1, g2, input) = out[k];
        e.checks += 1;
        if g1 != g2 {
            e.violation("freeze:get-impure", k + 1, || format!("history [{}]: get() changed when the inputs changed without an update", desc(k)));
        }
        match CONDS[seq[k] / 4] {
            Cond::F => {
                if g1 != input {
                    e.violation("freeze:unfrozen-not-passthrough", k + 1, || {
                        format!("history [{}]: condition false, input returned {} but get() = {}", desc(k), input.show(), g1.show())
                    });
                }
                constrained = true;
            }
            Cond::T => {
                if constrained {
                    saw_freeze = true;
                    if g1 != prev {
                        e.violation("freeze:frozen-value-changed", k + 1, || {
                            format!("history [{}]: condition true, get() changed from {} to {}", desc(k), prev.show(), g1.show())
                        });
                    }
                }
            }
            Cond::N => {
                if !g1.is_none() {
                    e.violation("freeze:absent-condition-not-absent", k + 1, || {
                        format!("history [{}]: condition absent but get() = {}", desc(k), g1.show())
                    });
                }
                constrained = false;
            }
            Cond::Er => {
                constrained = false;
            }
        }
        prev = g1;
    }
    if saw_freeze {
        e.nontrivial += 1;
    }
    n as u64
}

pub fn run(ctx: &Ctx) -> Vec<Eng> {
    let depth = if ctx.thorough { 10 } else { 8 };
    let budget = Budget::secs(if ctx.thorough { 1500 } else { 120 });
    let mut engines = Vec::new();
    let mut e1 = Eng::new(
        "c05-seqs",
        "all histories of exactly `depth` events over {P(1), P(-2), N, E1 = Other(1), E2 = the crate's own FromNone} (clock +1 s per event; every shorter history is a prefix and is judged at every step) for each of 15 stateful stream variants (the deviation engine adds two moving averages whose window outlasts the whole history); oracles: no stale error, reset == fresh real stream on the suffix (bit equality of update and get results), deletion of ignored absent events, get purity with the input poisoned between calls, lazy-get run; non-trivial = history with a recovery after a reset event or with deleted absent events",
        &format!("depth {} => 5^{} histories x 15 streams", depth, depth),
    );
    for kind in 0..15 {
        par_seqs(&mut e1, 5, depth, budget, |seq, e| {
            let h: Vec<Ev> = seq.iter().map(|&s| SYMS[s]).collect();
            let a = check_history(kind, &h, e);
            e.sample(|| format!("{}: [{}]", KIND_NAMES[kind], hist_name(&h)));
            a
        });
    }
    engines.push(e1);
    let rdepth = if ctx.thorough { 8 } else { 6 };
    let mut e1r = Eng::new(
        "c05-repeated-timestamps",
        "the filters, which accept non-decreasing and possibly repeated timestamps (EWMA f32/Quantity, moving average f32/Quantity, short and long window): all histories of exactly `depth` events over the same five symbols under three more clocks - every timestamp used twice, the clock standing still, every timestamp used three times - so that an error, an absent sample or a reset is followed by a sample that carries the timestamp of the sample before it; same oracles as c05-seqs (no stale error, reset == fresh stream on the suffix, deletion of ignored absent events, purity)",
        &format!("depth {} => 5^{} histories x 6 streams x 3 clocks", rdepth, rdepth),
    );
    for kind in [4usize, 5, 6, 7, 15, 16] {
        for clock in 1..=3u8 {
            par_seqs(&mut e1r, 5, rdepth, budget, |seq, e| {
                let h: Vec<Ev> = seq.iter().map(|&s| SYMS[s]).collect();
                CLOCK.with(|c| c.set(clock));
                let before = e.viol.len();
                let a = check_history(kind, &h, e);
                CLOCK.with(|c| c.set(0));
                if e.viol.len() > before {
                    e.notes.push(format!("a violation first appeared with the clock pattern: {}", CLOCK_NAMES[clock as usize]));
                }
                e.sample(|| format!("{} ({}): [{}]", KIND_NAMES[kind], CLOCK_NAMES[clock as usize], hist_name(&h)));
                a
            });
        }
    }
    engines.push(e1r);

    let (hz, k) = if ctx.thorough { (48, 3) } else { (40, 2) };
    let mut e2 = Eng::new(
        "c05-deviations",
        "all histories of exactly H events that differ from the default stream (alternating present samples) in at most k positions, each deviation being one of {N, E1, FromNone, repeated value}; same oracles as c05-seqs; non-trivial as above",
        &format!("H={} k={} x 17 streams", hz, k),
    );
    let cases = deviation_cases(hz, 4, k);
    for kind in 0..17 {
        par_cases(&mut e2, &cases, budget, |c, e| {
            let mut h: Vec<Ev> = (0..hz).map(|i| Ev::P(i % 2)).collect();
            for &(p, a) in c {
                h[p as usize] = match a {
                    0 => Ev::N,
                    1 => Ev::Er(1),
                    2 => Ev::Er(0),
                    _ => Ev::P((p as usize + 1) % 2),
                };
            }
            e.executions += 1;
            e.states += 1;
            e.max_depth = e.max_depth.max(hz as u64);
            e.transitions += check_history(kind, &h, e);
            if c.len() == k {
                e.sample(|| format!("{}: [{}]", KIND_NAMES[kind], hist_name(&h)));
            }
        });
    }
    engines.push(e2);

    let (ph, maxp) = if ctx.thorough { (64, 5) } else { (40, 4) };
    let mut e2b = Eng::new(
        "c05-periodic",
        "periodic histories: every primitive word of length <= p over {P(1), P(-2), N, E1 = Other(1), E2 = the crate's own FromNone} repeated to H events, and every history differing from one of these in exactly one position; same oracles as c05-seqs (long runs with many resets / errors in a regular pattern)",
        &format!("H={} p<={} => {} histories x 17 streams", ph, maxp, periodic_count(5, maxp, ph)),
    );
    for kind in 0..17 {
        par_periodic(&mut e2b, 5, maxp, ph, budget, |seq, e| {
            let h: Vec<Ev> = seq.iter().map(|&s| SYMS[s]).collect();
            e.sample(|| format!("{}: [{}]", KIND_NAMES[kind], hist_name(&h)));
            check_history(kind, &h, e)
        });
        par_long(&mut e2b, 5, 2, &LONG_LENS, budget, |seq, e| {
            let h: Vec<Ev> = seq.iter().map(|&s| SYMS[s]).collect();
            check_history(kind, &h, e)
        });
    }
    e2b.bounds.push_str(&format!("; plus long runs: every primitive word of length <= 2 repeated to 255..257 and 511..513 events followed by one event of each kind ({} histories x 17 streams)", long_count(5, 2, &LONG_LENS)));
    engines.push(e2b);
    // freeze: periodic condition/input rounds
    let mut e3b = Eng::new(
        "c05-freeze-periodic",
        "freeze: every primitive word of length <= 3 over the 16 (condition, input) round kinds repeated to H rounds, plus one deviation; reference machine as in c05-freeze",
        &format!("H={} => {} histories", ph, periodic_count(16, 3, ph)),
    );
    par_periodic(&mut e3b, 16, 3, ph, budget, |seq, e| freeze_history(seq, e));
    engines.push(e3b);

    let tdepth = 4;
    let mut e2c = Eng::new(
        "c05-interleaved-twins",
        "two live streams of the same type in lockstep: every history of `depth` events over {P(1), P(-2), N, E1, FromNone} against each of 8 partner histories, in both update orders (the second stream's clock 0.25 s ahead): every update result and every get() of each must equal what that stream gives when it runs alone (state shared between instances - a static cache, a module-level scratch value - breaks this); 17 stream types; non-trivial = the two histories differ",
        &format!("depth {} => 5^{} histories x 8 partners x 2 orders x 17 streams", tdepth, tdepth),
    );
    {
        // every history against a small set of partner histories, in both update orders
        let partners: Vec<Vec<usize>> = vec![vec![0, 0, 0, 0], vec![1, 1, 1, 1], vec![0, 1, 0, 1], vec![2, 1, 1, 0], vec![3, 0, 1, 1], vec![1, 2, 0, 0], vec![0, 4, 1, 0], vec![2, 2, 2, 2]];
        let nh = ipow(5, tdepth) as usize;
        let np = partners.len();
        let partners = &partners;
        for kind in 0..17 {
            par(&mut e2c, (nh * np * 2) as u64, 64, budget, |idx, e| {
                let idx = idx as usize;
                let (ia, ip, swap) = (idx / (np * 2), (idx / 2) % np, idx % 2 == 1);
                let mut da = vec![0usize; tdepth];
                decode(ia as u64, 5, &mut da);
                let full: Vec<Ev> = da.iter().map(|&i| SYMS[i]).collect();
                let part: Vec<Ev> = partners[ip][..tdepth].iter().map(|&i| SYMS[i]).collect();
                let (ha, hb) = if swap { (part, full) } else { (full, part) };
                e.executions += 1;
                e.states += 1;
                if ha != hb {
                    e.nontrivial += 1;
                }
                e.max_depth = e.max_depth.max(2 * tdepth as u64);
                e.transitions += twins(kind, &ha, &hb, e);
            });
        }
    }
    engines.push(e2c);
    let all_kinds: Vec<usize> = (0..17).collect();
    engines.push(wiring_engine("c05-input-wirings", &all_kinds, if ctx.thorough { 6 } else { 5 }, budget));
    let fdepth = if ctx.thorough { 6 } else { 4 };
    let mut e3 = Eng::new(
        "c05-freeze",
        "all histories of exactly `depth` rounds over condition {false,true,absent,E1} x input {P,P',absent,FromNone}; reference machine: condition false => get == what the input returned now; true after a false (possibly through more trues) => unchanged; absent => Ok(None); steps after an absent/erroring condition until the next false are unconstrained; get purity with both inputs poisoned; non-trivial = history in which a constrained freeze step occurs",
        &format!("depth {} => 16^{} histories", fdepth, fdepth),
    );
    par_seqs(&mut e3, 16, fdepth, budget, |seq, e| {
        let a = freeze_history(seq, e);
        e.sample(|| format!("{:?}", seq));
        a
    });
    engines.push(e3);
    engines
}
