//! C09 — terminal links always form a symmetric matching; connect/disconnect never panic.
//! Explicit-state BFS over the *observed* link structure of n real terminals, every state
//! rebuilt on fresh terminals by replaying its witness history; plus the value clause
//! (state mean / newer command / combined read) over all presence x timestamp-order cases.
use crate::env::*;
use crate::mc::*;
use crate::Ctx;
use rrtk::*;
use std::cell::RefCell;
use std::collections::{HashMap, VecDeque};

type Term<'a> = RefCell<Terminal<'a, E>>;

fn own_pos(i: usize) -> f32 {
    (1u32 << (i + 1)) as f32
}

fn fresh<'a>(n: usize) -> Vec<Term<'a>> {
    let v: Vec<Term<'a>> = (0..n).map(|_| Terminal::new()).collect();
    for (i, t) in v.iter().enumerate() {
        t.borrow_mut()
            .set(Datum::new(Time(i as i64), State::new_raw(own_pos(i), 0.0, 0.0)))
            .unwrap();
        t.borrow_mut()
            .set(Datum::new(Time(i as i64), Command::Position(i as f32)))
            .unwrap();
    }
    v
}

fn apply<'a>(ts: &'a [Term<'a>], n: usize, a: usize) {
    let (i, j) = (a / n, a % n);
    if i == j {
        ts[i].borrow_mut().disconnect();
    } else {
        connect(&ts[i], &ts[j]);
    }
}

fn act_name(n: usize, a: usize) -> String {
    let (i, j) = (a / n, a % n);
    if i == j {
        format!("disconnect({})", i)
    } else {
        format!("connect({},{})", i, j)
    }
}

/// Decode the partner of every terminal from what the terminal reads.
/// Err(description) if a read is not explainable by "own state" or "mean with one partner".
fn observe<'a>(ts: &'a [Term<'a>]) -> Result<(Vec<Option<usize>>, Vec<Obs>), String> {
    let n = ts.len();
    let mut other = vec![None; n];
    let mut full = Vec::new();
    for i in 0..n {
        let s = <Terminal<E> as Getter<State, E>>::get(&ts[i].borrow());
        let c = <Terminal<E> as Getter<Command, E>>::get(&ts[i].borrow());
        let d = <Terminal<E> as Getter<TerminalData, E>>::get(&ts[i].borrow());
        let so = obs(&s);
        let co = obs(&c);
        full.push(so);
        full.push(co);
        let sd = match s {
            Ok(Some(d)) => d,
            _ => return Err(format!("terminal {} state read is {}", i, so.show())),
        };
        let p = sd.value.position;
        let mut partner = None;
        if p == own_pos(i) {
            if sd.time != Time(i as i64) {
                return Err(format!("terminal {} unlinked read has time {}", i, sd.time.0));
            }
        } else {
            for j in 0..n {
                if j != i && (own_pos(i) + own_pos(j)) / 2.0 == p {
                    partner = Some(j);
                }
            }
            match partner {
                None => {
                    return Err(format!(
                        "terminal {} reads position {} which is no mean of two own states",
                        i, p
                    ))
                }
                Some(j) => {
                    if sd.time != Time(i.max(j) as i64) {
                        return Err(format!(
                            "terminal {} linked to {} reads time {} (expected newest {})",
                            i,
                            j,
                            sd.time.0,
                            i.max(j)
                        ));
                    }
                }
            }
        }
        other[i] = partner;
        // command read must be the newer of own (time i) and partner's (time j)
        let exp_cmd = partner.map(|j| j.max(i)).unwrap_or(i);
        match c {
            Ok(Some(cd)) if cd.time == Time(exp_cmd as i64) && cd.value == Command::Position(exp_cmd as f32) => {}
            _ => {
                return Err(format!(
                    "terminal {} (partner {:?}) command read {} but expected command of terminal {}",
                    i,
                    partner,
                    co.show(),
                    exp_cmd
                ))
            }
        }
        match d {
            Ok(Some(dd))
                if dd.time == sd.time
                    && dd.value.time == sd.time
                    && dd.value.state == Some(sd.value)
                    && dd.value.command == Some(Command::Position(exp_cmd as f32)) => {}
            _ => {
                return Err(format!(
                    "terminal {} combined read {:?} disagrees with state/command reads",
                    i, d
                ))
            }
        }
    }
    Ok((other, full))
}

fn relation(st: &[Option<usize>], n: usize, a: usize) -> &'static str {
    let (i, j) = (a / n, a % n);
    if i == j {
        return if st[i].is_some() { "linked" } else { "unlinked" };
    }
    match (st[i], st[j]) {
        (Some(x), _) if x == j => "already-linked-pair",
        (Some(_), Some(_)) => "both-linked-elsewhere",
        (Some(_), None) => "first-linked-elsewhere",
        (None, Some(_)) => "second-linked-elsewhere",
        (None, None) => "both-free",
    }
}

fn model_step(st: &[Option<usize>], n: usize, a: usize) -> Vec<Option<usize>> {
    let (i, j) = (a / n, a % n);
    let mut s = st.to_vec();
    let unlink = |s: &mut Vec<Option<usize>>, x: usize| {
        if let Some(p) = s[x] {
            s[p] = None;
            s[x] = None;
        }
    };
    if i == j {
        unlink(&mut s, i);
    } else {
        unlink(&mut s, i);
        unlink(&mut s, j);
        s[i] = Some(j);
        s[j] = Some(i);
    }
    s
}

fn bfs(n: usize, eng: &mut Eng) {
    let init: Vec<Option<usize>> = vec![None; n];
    let mut seen: HashMap<Vec<Option<usize>>, (Vec<usize>, Vec<Obs>)> = HashMap::new();
    let mut queue: VecDeque<Vec<Option<usize>>> = VecDeque::new();
    // initial state: observe it
    {
        let ts = fresh(n);
        match guard(|| observe(&ts)) {
            Ok(Ok((o, full))) if o == init => {
                seen.insert(init.clone(), (vec![], full));
                queue.push_back(init.clone());
            }
            other => {
                eng.violation("terminals:init:unexpected-observation", 0, || {
                    format!("n={} fresh terminals observe {:?}", n, other.map(|r| r.map(|x| x.0)))
                });
                return;
            }
        }
    }
    eng.states += 1;
    while let Some(st) = queue.pop_front() {
        let hist = seen[&st].0.clone();
        eng.max_depth = eng.max_depth.max(hist.len() as u64 + 1);
        for a in 0..n * n {
            let ts = fresh(n);
            let describe = |what: &str| {
                format!(
                    "n={} history=[{}] then {} :: {}",
                    n,
                    hist.iter().map(|&x| act_name(n, x)).collect::<Vec<_>>().join("; "),
                    act_name(n, a),
                    what
                )
            };
            let replayed = guard(|| {
                for &h in &hist {
                    apply(&ts, n, h);
                }
            });
            eng.transitions += hist.len() as u64;
            if let Err(m) = replayed {
                eng.violation("terminals:replay-nondeterministic", hist.len(), || describe(&m));
                continue;
            }
            let r = guard(|| apply(&ts, n, a));
            eng.transitions += 1;
            eng.executions += 1;
            eng.checks += 1;
            let opname = if a / n == a % n { "disconnect" } else { "connect" };
            let rel = relation(&st, n, a);
            if rel != "both-free" && rel != "unlinked" {
                eng.nontrivial += 1;
            }
            if let Err(m) = r {
                eng.violation(&format!("terminals:{}:{}:panic", opname, rel), hist.len() + 1, || {
                    describe(&format!("panicked: {}", m))
                });
                continue;
            }
            let o = guard(|| observe(&ts));
            let (obs_state, full) = match o {
                Ok(Ok(x)) => x,
                Ok(Err(m)) => {
                    eng.violation(&format!("terminals:{}:{}:bad-read", opname, rel), hist.len() + 1, || describe(&m));
                    continue;
                }
                Err(m) => {
                    eng.violation(&format!("terminals:{}:{}:read-panic", opname, rel), hist.len() + 1, || describe(&m));
                    continue;
                }
            };
            // invariant: symmetric matching
            let mut sym = true;
            for i in 0..n {
                if let Some(j) = obs_state[i] {
                    if j == i || obs_state[j] != Some(i) {
                        sym = false;
                    }
                }
            }
            if !sym {
                eng.violation(&format!("terminals:{}:{}:asymmetric-link", opname, rel), hist.len() + 1, || {
                    describe(&format!("links observed {:?}", obs_state))
                });
                continue;
            }
            let expect = model_step(&st, n, a);
            if obs_state != expect {
                eng.violation(&format!("terminals:{}:{}:postcondition", opname, rel), hist.len() + 1, || {
                    describe(&format!("links observed {:?}, matching model says {:?}", obs_state, expect))
                });
                continue;
            }
            eng.outcome(h64(&full));
            match seen.get(&obs_state) {
                None => {
                    let mut h2 = hist.clone();
                    h2.push(a);
                    eng.sample(|| describe(&format!("-> links {:?}", obs_state)));
                    seen.insert(obs_state.clone(), (h2, full));
                    queue.push_back(obs_state);
                    eng.states += 1;
                }
                Some((_, full0)) => {
                    // differential: same canonical state reached by another history must look the same
                    if *full0 != full {
                        eng.violation("terminals:state-merge:observation-differs", hist.len() + 1, || {
                            describe("same link structure reached by two histories reads differently")
                        });
                    }
                }
            }
        }
    }
    eng.count(&format!("matchings_n{}", n), seen.len() as i128);
}

/// Value clause: own/partner x {state, command} presence x weak timestamp orders.
pub fn values(eng: &mut Eng) {
    for equal_values in [false, true] {
    let s_own = State::new_raw(1.0, 2.0, 3.0);
    let s_par = if equal_values { s_own } else { State::new_raw(8.0, 16.0, 32.0) };
    let c_own = Command::Velocity(5.0);
    let c_par = if equal_values { c_own } else { Command::Position(-7.0) };
    for linked in [false, true] {
        for mask in 0..16u32 {
            let present: Vec<usize> = (0..4).filter(|b| mask & (1 << b) != 0).collect();
            let mut time_sets: Vec<[i64; 4]> = Vec::new();
            for order in weak_orders(present.len()) {
                for base in [10i64, -12i64, i64::MIN] {
                    let mut t = [0i64; 4];
                    for (k, &slot) in present.iter().enumerate() {
                        t[slot] = base + order[k] as i64 * 5;
                    }
                    time_sets.push(t);
                }
                // the same order with timestamps further apart than i64::MAX
                let levels = order.iter().max().map(|m| m + 1).unwrap_or(0);
                for map in extreme_level_maps(levels) {
                    let mut t = [0i64; 4];
                    for (k, &slot) in present.iter().enumerate() {
                        t[slot] = map[order[k]];
                    }
                    time_sets.push(t);
                }
            }
            for t in time_sets {
                eng.executions += 1;
                eng.states += 1;
                if linked && present.len() >= 2 {
                    eng.nontrivial += 1;
                }
                let case = format!(
                    "equal_values={} linked={} own_state={} partner_state={} own_cmd={} partner_cmd={} times={:?}",
                    equal_values,
                    linked,
                    mask & 1 != 0,
                    mask & 2 != 0,
                    mask & 4 != 0,
                    mask & 8 != 0,
                    t
                );
                let r = guard(|| {
                    let a: Term = Terminal::new();
                    let b: Term = Terminal::new();
                    if linked {
                        connect(&a, &b);
                    }
                    if mask & 1 != 0 {
                        a.borrow_mut().set(Datum::new(Time(t[0]), s_own)).unwrap();
                    }
                    if mask & 2 != 0 {
                        b.borrow_mut().set(Datum::new(Time(t[1]), s_par)).unwrap();
                    }
                    if mask & 4 != 0 {
                        a.borrow_mut().set(Datum::new(Time(t[2]), c_own)).unwrap();
                    }
                    if mask & 8 != 0 {
                        b.borrow_mut().set(Datum::new(Time(t[3]), c_par)).unwrap();
                    }
                    let mut out = Vec::new();
                    for x in [&a, &b] {
                        let s = <Terminal<E> as Getter<State, E>>::get(&x.borrow());
                        let c = <Terminal<E> as Getter<Command, E>>::get(&x.borrow());
                        let d = <Terminal<E> as Getter<TerminalData, E>>::get(&x.borrow());
                        // purity: read again
                        let s2 = <Terminal<E> as Getter<State, E>>::get(&x.borrow());
                        let c2 = <Terminal<E> as Getter<Command, E>>::get(&x.borrow());
                        out.push((s, c, d, s2, c2));
                    }
                    out
                });
                eng.transitions += 6;
                let out = match r {
                    Ok(o) => o,
                    Err(m) => {
                        eng.violation("terminal-read:panic", present.len(), || format!("{} :: {}", case, m));
                        continue;
                    }
                };
                eng.outcome(h64(&format!("{:?}", out)));
                for (side, (s, c, d, s2, c2)) in out.iter().enumerate() {
                    eng.checks += 1;
                    if s != s2 || c != c2 {
                        eng.violation("terminal-read:impure", present.len(), || case.clone());
                    }
                    // what this side can see
                    let (own_s, par_s, own_c, par_c) = if side == 0 {
                        (mask & 1 != 0, linked && mask & 2 != 0, mask & 4 != 0, linked && mask & 8 != 0)
                    } else {
                        (mask & 2 != 0, linked && mask & 1 != 0, mask & 8 != 0, linked && mask & 4 != 0)
                    };
                    let (os, ps, ts_own, ts_par) = if side == 0 {
                        (s_own, s_par, t[0], t[1])
                    } else {
                        (s_par, s_own, t[1], t[0])
                    };
                    let (oc, pc, tc_own, tc_par) = if side == 0 {
                        (c_own, c_par, t[2], t[3])
                    } else {
                        (c_par, c_own, t[3], t[2])
                    };
                    let exp_s: Option<Datum<State>> = match (own_s, par_s) {
                        (false, false) => None,
                        (true, false) => Some(Datum::new(Time(ts_own), os)),
                        (false, true) => Some(Datum::new(Time(ts_par), ps)),
                        (true, true) => Some(Datum::new(
                            Time(ts_own.max(ts_par)),
                            State::new_raw(
                                (os.position + ps.position) / 2.0,
                                (os.velocity + ps.velocity) / 2.0,
                                (os.acceleration + ps.acceleration) / 2.0,
                            ),
                        )),
                    };
                    if *s != Ok(exp_s) {
                        eng.violation(
                            &format!("terminal-read:state:{}{}", if own_s { "own" } else { "" }, if par_s { "+partner" } else { "" }),
                            present.len(),
                            || format!("{} side={} read {:?} expected {:?}", case, side, s, exp_s),
                        );
                    }
                    let cands: Vec<Datum<Command>> = [
                        if own_c { Some(Datum::new(Time(tc_own), oc)) } else { None },
                        if par_c { Some(Datum::new(Time(tc_par), pc)) } else { None },
                    ]
                    .into_iter()
                    .flatten()
                    .collect();
                    let ok_c = match c {
                        Ok(None) => cands.is_empty(),
                        Ok(Some(got)) => cands.contains(got) && cands.iter().all(|x| x.time <= got.time),
                        Err(_) => false,
                    };
                    if !ok_c {
                        eng.violation(
                            &format!("terminal-read:command:{}{}", if own_c { "own" } else { "" }, if par_c { "+partner" } else { "" }),
                            present.len(),
                            || format!("{} side={} read {:?} candidates {:?}", case, side, c, cands),
                        );
                    }
                    // combined read
                    let ok_d = match (d, s, c) {
                        (Ok(None), Ok(None), Ok(None)) => true,
                        (Ok(Some(dd)), Ok(sv), Ok(cv)) => {
                            let exp_t = match (sv, cv) {
                                (Some(sd), _) => Some(sd.time),
                                (None, Some(cd)) => Some(cd.time),
                                (None, None) => None,
                            };
                            Some(dd.time) == exp_t
                                && Some(dd.value.time) == exp_t
                                && dd.value.state == sv.map(|x| x.value)
                                && dd.value.command == cv.map(|x| x.value)
                        }
                        _ => false,
                    };
                    if !ok_d {
                        eng.violation("terminal-read:combined", present.len(), || {
                            format!("{} side={} combined {:?} state {:?} command {:?}", case, side, d, s, c)
                        });
                    }
                }
                // both ends of a link read the same state
                if linked && out[0].0 != out[1].0 {
                    eng.violation("terminal-read:ends-disagree", present.len(), || {
                        format!("{} :: {:?} vs {:?}", case, out[0].0, out[1].0)
                    });
                }
                eng.sample(|| format!("{} -> a reads {:?}", case, out[0].0));
            }
        }
    }
    }
}

// ---------------------------------------------------------------- long unobserved bursts
/// Long runs of operations *without a read in between*. The BFS and the value engine read every
/// terminal after every operation; anything that remembers a reading (a cache, a revision counter,
/// a "dirty" flag) is therefore never stale there. Here: a set-up, one read of everything, then a
/// periodic operation word repeated to N operations with no read, then one read of everything,
/// judged against a plain link + slot model. N sits on both sides of the integer-width boundaries
/// 2^8, 2^9 (thorough: 2^16), where a narrow counter wraps.
const BN: usize = 3;
#[derive(Clone)]
struct BModel {
    link: [Option<usize>; BN],
    st: [Option<(i64, f32)>; BN],
    cm: [Option<(i64, f32)>; BN],
    k: i64,
}
fn burst_ops() -> Vec<(u8, usize, usize)> {
    // (kind, i, j): 0 write_state(i), 1 write_command(i), 2 connect(i,j), 3 disconnect(i)
    let mut v = Vec::new();
    for i in 0..BN {
        v.push((0, i, 0));
    }
    for i in 0..BN {
        v.push((1, i, 0));
    }
    for i in 0..BN {
        for j in 0..BN {
            if i != j {
                v.push((2, i, j));
            }
        }
    }
    for i in 0..BN {
        v.push((3, i, 0));
    }
    v
}
fn burst_op_name(o: (u8, usize, usize)) -> String {
    match o.0 {
        0 => format!("write_state({})", o.1),
        1 => format!("write_command({})", o.1),
        2 => format!("connect({},{})", o.1, o.2),
        _ => format!("disconnect({})", o.1),
    }
}
fn burst_apply<'a>(ts: &'a [Term<'a>], m: &mut BModel, o: (u8, usize, usize)) {
    m.k += 1;
    let t = 10 + m.k;
    let v = (m.k % 1000) as f32 + 1.0;
    match o.0 {
        0 => {
            ts[o.1].borrow_mut().set(Datum::new(Time(t), State::new_raw(v, -v, 0.5 * v))).unwrap();
            m.st[o.1] = Some((t, v));
        }
        1 => {
            ts[o.1].borrow_mut().set(Datum::new(Time(t), Command::Position(v))).unwrap();
            m.cm[o.1] = Some((t, v));
        }
        2 => {
            connect(&ts[o.1], &ts[o.2]);
            for x in [o.1, o.2] {
                if let Some(p) = m.link[x] {
                    m.link[p] = None;
                    m.link[x] = None;
                }
            }
            m.link[o.1] = Some(o.2);
            m.link[o.2] = Some(o.1);
        }
        _ => {
            ts[o.1].borrow_mut().disconnect();
            if let Some(p) = m.link[o.1] {
                m.link[p] = None;
                m.link[o.1] = None;
            }
        }
    }
}
/// read everything and compare with the model; Err(description) on the first disagreement
fn burst_read<'a>(ts: &'a [Term<'a>], m: &BModel) -> Result<(), String> {
    for i in 0..BN {
        let p = m.link[i];
        let own_s = m.st[i];
        let par_s = p.and_then(|p| m.st[p]);
        let exp_s: Option<(i64, f32)> = match (own_s, par_s) {
            (None, None) => None,
            (Some(a), None) | (None, Some(a)) => Some(a),
            (Some(a), Some(b)) => Some((a.0.max(b.0), (a.1 + b.1) / 2.0)),
        };
        let own_c = m.cm[i];
        let par_c = p.and_then(|p| m.cm[p]);
        let exp_c: Option<(i64, f32)> = match (own_c, par_c) {
            (None, None) => None,
            (Some(a), None) | (None, Some(a)) => Some(a),
            (Some(a), Some(b)) => Some(if a.0 > b.0 { a } else { b }),
        };
        let s = <Terminal<E> as Getter<State, E>>::get(&ts[i].borrow());
        let c = <Terminal<E> as Getter<Command, E>>::get(&ts[i].borrow());
        let d = <Terminal<E> as Getter<TerminalData, E>>::get(&ts[i].borrow());
        let got_s = match &s {
            Ok(None) => None,
            Ok(Some(d)) if d.value.velocity == -d.value.position && d.value.acceleration == 0.5 * d.value.position => Some((d.time.0, d.value.position)),
            other => return Err(format!("terminal {} state read {:?}", i, other)),
        };
        if got_s != exp_s {
            return Err(format!("terminal {} (partner {:?}) state read gives (time, position) {:?} but own slot {:?} and partner slot {:?} make {:?}", i, p, got_s, own_s, par_s, exp_s));
        }
        let got_c = match &c {
            Ok(None) => None,
            Ok(Some(d)) => match d.value {
                Command::Position(v) => Some((d.time.0, v)),
                _ => return Err(format!("terminal {} command read {:?}", i, c)),
            },
            other => return Err(format!("terminal {} command read {:?}", i, other)),
        };
        if got_c != exp_c {
            return Err(format!("terminal {} (partner {:?}) command read gives {:?} but own slot {:?} and partner slot {:?} make {:?}", i, p, got_c, own_c, par_c, exp_c));
        }
        let exp_d = match (exp_s, exp_c) {
            (None, None) => None,
            (Some(s), c) => Some((s.0, Some(s.1), c.map(|c| c.1))),
            (None, Some(c)) => Some((c.0, None, Some(c.1))),
        };
        let got_d = match &d {
            Ok(None) => None,
            Ok(Some(dd)) => Some((dd.time.0, dd.value.state.map(|s| s.position), dd.value.command.map(f32::from))),
            other => return Err(format!("terminal {} combined read {:?}", i, other)),
        };
        if got_d != exp_d {
            return Err(format!("terminal {} (partner {:?}) combined read gives (time, state position, command) {:?}, expected {:?}", i, p, got_d, exp_d));
        }
    }
    Ok(())
}
fn bursts(eng: &mut Eng, thorough: bool) {
    let ops = burst_ops();
    let words = primitive_words(ops.len(), 2);
    let lens: Vec<usize> = if thorough { vec![255, 256, 257, 511, 512, 513, 65535, 65536, 65537] } else { vec![255, 256, 257, 511, 512, 513] };
    // set-ups (operation indices into `ops`): nothing; a link; a link with data on both ends; two relinks with data
    let setups: Vec<Vec<usize>> = vec![vec![], vec![6], vec![6, 0, 1, 3], vec![6, 9, 0, 1, 2, 4, 5]];
    let mut cases: Vec<(usize, usize, usize)> = Vec::new();
    for s in 0..setups.len() {
        for w in 0..words.len() {
            for l in 0..lens.len() {
                cases.push((s, w, l));
            }
        }
    }
    let (ops, words, lens, setups) = (&ops, &words, &lens, &setups);
    par_cases(eng, &cases, Budget::secs(if thorough { 1200 } else { 60 }), move |&(si, wi, li), e| {
        let n = lens[li];
        let w = &words[wi];
        e.executions += 1;
        e.states += 1;
        e.transitions += (n + setups[si].len()) as u64;
        e.checks += 2;
        e.max_depth = e.max_depth.max((n + setups[si].len()) as u64);
        e.nontrivial += 1;
        let r = guard(|| -> Result<(), String> {
            let ts: Vec<Term> = (0..BN).map(|_| Terminal::new()).collect();
            let mut m = BModel { link: [None; BN], st: [None; BN], cm: [None; BN], k: 0 };
            for &o in &setups[si] {
                burst_apply(&ts, &mut m, ops[o]);
            }
            burst_read(&ts, &m).map_err(|x| format!("before the burst: {}", x))?;
            for k in 0..n {
                burst_apply(&ts, &mut m, ops[w[k % w.len()]]);
            }
            burst_read(&ts, &m).map_err(|x| format!("after the burst: {}", x))
        });
        let desc = || {
            format!(
                "set-up [{}], read all, then [{}] repeated to {} operations without a read, read all",
                setups[si].iter().map(|&o| burst_op_name(ops[o])).collect::<Vec<_>>().join(","),
                w.iter().map(|&o| burst_op_name(ops[o])).collect::<Vec<_>>().join(","),
                n
            )
        };
        match r {
            Ok(Ok(())) => e.outcome(h64(&(si, wi, li))),
            Ok(Err(m)) => e.violation("terminals:burst:stale-or-wrong-read", n, || format!("{}: {}", desc(), m)),
            Err(m) => e.violation("terminals:burst:panic", n, || format!("{}: panicked: {}", desc(), m)),
        }
    });
    eng.sample(|| "set-up [connect(0,1)], read all, then [write_state(1)] repeated to 256 operations without a read, read all".to_string());
}

/// Two connected pairs alive at once. Everything else in this file works on one set of terminals at
/// a time; state remembered *outside* the terminals (a memo of the last mean keyed by something
/// that is not unique per link) only shows when a second, similar-looking pair is read in between.
fn two_pairs(eng: &mut Eng) {
    let own: [(i64, f32); 2] = [(0, 1.0), (5, 4.0)];
    let par_: [(i64, f32); 4] = [(0, 5.0), (0, 11.0), (5, 5.0), (7, -3.0)];
    let st = |x: (i64, f32)| Datum::new(Time(x.0), State::new_raw(x.1, x.1 + 1.0, x.1 + 2.0));
    // all orders of reading the four ends
    let mut orders: Vec<Vec<usize>> = Vec::new();
    for code in 0..256usize {
        let o = [code & 3, (code >> 2) & 3, (code >> 4) & 3, (code >> 6) & 3];
        let mut seen = [false; 4];
        o.iter().for_each(|&i| seen[i] = true);
        if seen.iter().all(|&b| b) {
            orders.push(o.to_vec());
        }
    }
    for o1 in 0..2 {
        for p1 in 0..4 {
            for o2 in 0..2 {
                for p2 in 0..4 {
                    for ord in &orders {
                        eng.executions += 1;
                        eng.states += 1;
                        eng.transitions += 10;
                        eng.checks += 4;
                        if (o1, p1) != (o2, p2) {
                            eng.nontrivial += 1;
                        }
                        let vals = [own[o1], par_[p1], own[o2], par_[p2]]; // a1, b1, a2, b2
                        let r = guard(|| -> Result<(), String> {
                            let ts: Vec<Term> = (0..4).map(|_| Terminal::new()).collect();
                            connect(&ts[0], &ts[1]);
                            connect(&ts[2], &ts[3]);
                            for i in 0..4 {
                                ts[i].borrow_mut().set(st(vals[i])).map_err(|e| format!("{:?}", e))?;
                            }
                            for &i in ord {
                                let partner = i ^ 1;
                                let (a, b) = (vals[i], vals[partner]);
                                let m = (a.1 + b.1) / 2.0;
                                let want = Datum::new(Time(a.0.max(b.0)), State::new_raw(m, m + 1.0, m + 2.0));
                                let got = <Terminal<E> as Getter<State, E>>::get(&ts[i].borrow());
                                if got != Ok(Some(want)) {
                                    return Err(format!("terminal {} of [a1,b1,a2,b2] reads {:?} but the mean of its own and its partner's state is {:?}", i, got, want));
                                }
                                let d = <Terminal<E> as Getter<TerminalData, E>>::get(&ts[i].borrow());
                                match d {
                                    Ok(Some(dd)) if dd.value.state == Some(want.value) && dd.time == want.time => {}
                                    other => return Err(format!("terminal {} combined read {:?}, expected state {:?}", i, other, want)),
                                }
                            }
                            Ok(())
                        });
                        match r {
                            Ok(Ok(())) => eng.outcome(h64(&(o1, p1, o2, p2, ord))),
                            Ok(Err(m)) => eng.violation("terminals:two-pairs:wrong-read", 2, || format!("pairs (a1,b1) and (a2,b2) with states (time, position) {:?}, all set, then read in order {:?}: {}", vals, ord, m)),
                            Err(m) => eng.violation("terminals:two-pairs:panic", 2, || format!("states {:?} order {:?}: {}", vals, ord, m)),
                        }
                    }
                }
            }
        }
    }
    eng.sample(|| "pairs with equal own states (1,2,3)@0 and partners (5,6,7)@0 / (11,12,13)@0: a1 reads 3, then a2 must read 6".to_string());
}

/// Operation sequences whose intermediate states are NOT read. The BFS above reaches every link
/// state by a shortest witness history and reads every terminal after every step; a read may repair
/// (or create) bookkeeping that is not part of the link structure - a stale partner pointer, a
/// lazily dropped link - so what a sequence of connects and disconnects leaves behind is judged
/// here for *every* sequence of each length (no state merging), under n + 1 observation modes:
/// nothing is read before the end, or only terminal k is read after every step. At the end all
/// terminals are read and the decoded link structure must equal the matching model's.
fn unobserved(n: usize, depth: usize, eng: &mut Eng, budget: Budget) {
    let acts: Vec<usize> = (0..n * n).collect();
    for len in 1..=depth {
        par_seqs(eng, acts.len(), len, budget, |seq, e| {
            let mut tr = 0u64;
            for mode in 0..=n {
                let ts = fresh(n);
                let mut st: Vec<Option<usize>> = vec![None; n];
                let r = guard(|| -> Result<(), (usize, String)> {
                    for (k, &a) in seq.iter().enumerate() {
                        apply(&ts, n, a);
                        st = model_step(&st, n, a);
                        if mode < n {
                            // partial observation: one terminal's three reads
                            let i = mode;
                            let s = <Terminal<E> as Getter<State, E>>::get(&ts[i].borrow());
                            let _ = <Terminal<E> as Getter<Command, E>>::get(&ts[i].borrow());
                            let _ = <Terminal<E> as Getter<TerminalData, E>>::get(&ts[i].borrow());
                            let want = match st[i] {
                                None => own_pos(i),
                                Some(j) => (own_pos(i) + own_pos(j)) / 2.0,
                            };
                            match s {
                                Ok(Some(d)) if d.value.position == want => {}
                                other => return Err((k + 1, format!("terminal {} (model partner {:?}) reads {:?}, expected position {}", i, st[i], other, want))),
                            }
                        }
                    }
                    match observe(&ts) {
                        Ok((o, _)) if o == st => Ok(()),
                        Ok((o, _)) => Err((seq.len(), format!("links observed at the end {:?}, matching model says {:?}", o, st))),
                        Err(m) => Err((seq.len(), m)),
                    }
                });
                tr += seq.len() as u64;
                e.checks += 1;
                let desc = |m: &str| {
                    format!(
                        "n={} [{}] with {}: {}",
                        n,
                        seq.iter().map(|&x| act_name(n, x)).collect::<Vec<_>>().join("; "),
                        if mode == n { "no read before the end".to_string() } else { format!("only terminal {} read after every step", mode) },
                        m
                    )
                };
                match r {
                    Ok(Ok(())) => {}
                    Ok(Err((k, m))) => e.violation("terminals:unobserved-sequence:wrong-links", k, || desc(&m)),
                    Err(m) => e.violation("terminals:unobserved-sequence:panic", seq.len(), || desc(&format!("panicked: {}", m))),
                }
            }
            // non-trivial = some action touches an already linked terminal
            let mut st: Vec<Option<usize>> = vec![None; n];
            let mut nt = false;
            for &a in seq {
                let rel = relation(&st, n, a);
                nt |= rel != "both-free" && rel != "unlinked";
                st = model_step(&st, n, a);
            }
            if nt {
                e.nontrivial += 1;
            }
            e.outcome(h64(&(n, st)));
            tr
        });
    }
}

pub fn run(ctx: &Ctx) -> Vec<Eng> {
    let max_n = if ctx.thorough { 10 } else { 6 };
    let mut e1 = Eng::new(
        "c09-link-bfs",
        "explicit-state BFS: state = link structure decoded from what every terminal reads; actions = connect(i,j) for all ordered i!=j and disconnect(i); each transition executed on fresh real terminals after replaying the state's witness history; non-trivial = the action touches at least one already linked terminal",
        &format!("n = 2..={} terminals, all reachable states x all actions", max_n),
    );
    for n in 2..=max_n {
        bfs(n, &mut e1);
    }
    let mut e2 = Eng::new(
        "c09-read-values",
        "all 16 presence combinations of own/partner state/command x every weak order of the present timestamps x linked/unlinked; non-trivial = linked with at least two data present",
        "2 x sum over masks of weak orders (1,1,3,13,75 per mask size)",
    );
    values(&mut e2);
    let mut e3 = Eng::new(
        "c09-unobserved-bursts",
        "3 terminals; 4 set-ups x every primitive word of length <= 2 over the 15 operations {write_state(i), write_command(i), connect(i,j), disconnect(i)} repeated to N operations with NO read in between, N on both sides of 2^8 and 2^9 (thorough: and 2^16); all terminals read once before and once after the burst and compared with a link + slot model (state = mean of own and partner slot or whichever exists with the newest time, command = newer, combined read); what remembers a reading across many operations (caches, narrow revision counters) is stale here and nowhere else",
        &format!("4 set-ups x {} words x {} lengths", primitive_words(15, 2).len(), if ctx.thorough { 9 } else { 6 }),
    );
    bursts(&mut e3, ctx.thorough);
    let mut e4 = Eng::new(
        "c09-two-pairs",
        "two connected pairs alive at once: own state of each pair's first end from 2 options, partner state from 4 (equal and different timestamps and values between the pairs), all four ends written, then the four ends read in every order (state and combined read): each read = mean of that terminal's own and partner state with the newer time; non-trivial = the two pairs differ",
        "8 x 8 pair configurations x 24 read orders",
    );
    two_pairs(&mut e4);
    let plan: Vec<(usize, usize)> = if ctx.thorough { vec![(2, 10), (3, 8), (4, 6), (5, 5)] } else { vec![(2, 8), (3, 6), (4, 4), (5, 3)] };
    let mut e5 = Eng::new(
        "c09-unobserved-sequences",
        "every sequence (no state merging) of length 1..d over {connect(i,j), i != j; disconnect(i)} on n fresh real terminals, executed under n + 1 observation modes - nothing read before the end, or only terminal k read after every step (and compared with the matching model) - then all terminals read and the decoded link structure compared with the matching model folded over the sequence; reaches bookkeeping that reads repair or create (stale partner pointers, lazily dropped links), which the per-step-observing BFS cannot; non-trivial = some action touches an already linked terminal",
        &format!("(n terminals, depth d) = {:?}; n^2 actions each; all lengths up to d; n + 1 observation modes", plan),
    );
    let budget = Budget::secs(if ctx.thorough { 1500 } else { 60 });
    for &(n, d) in &plan {
        unobserved(n, d, &mut e5, budget);
    }
    vec![e1, e2, e3, e4, e5]
}
