//! C09 — terminal links always form a symmetric matching; connect/disconnect never panic.
//! Explicit-state BFS over the *observed* link structure of n real terminals, every state
//! rebuilt on fresh terminals by replaying its witness history; plus the value clause
//! (state mean / newer command / combined read) over all presence x timestamp-order cases.
use crate::env::*;
use crate::mc::*;
use crate::Ctx;
use rrtk::*;
use std::cell::RefCell;
use std::collections::{HashMap, VecDeque};

type Term<'a> = RefCell<Terminal<'a, E>>;

fn own_pos(i: usize) -> f32 {
    (1u32 << (i + 1)) as f32
}

fn fresh<'a>(n: usize) -> Vec<Term<'a>> {
    let v: Vec<Term<'a>> = (0..n).map(|_| Terminal::new()).collect();
    for (i, t) in v.iter().enumerate() {
        t.borrow_mut()
            .set(Datum::new(Time(i as i64), State::new_raw(own_pos(i), 0.0, 0.0)))
            .unwrap();
        t.borrow_mut()
            .set(Datum::new(Time(i as i64), Command::Position(i as f32)))
            .unwrap();
    }
    v
}

fn apply<'a>(ts: &'a [Term<'a>], n: usize, a: usize) {
    let (i, j) = (a / n, a % n);
    if i == j {
        ts[i].borrow_mut().disconnect();
    } else {
        connect(&ts[i], &ts[j]);
    }
}

fn act_name(n: usize, a: usize) -> String {
    let (i, j) = (a / n, a % n);
    if i == j {
        format!("disconnect({})", i)
    } else {
        format!("connect({},{})", i, j)
    }
}

/// Decode the partner of every terminal from what the terminal reads.
/// Err(description) if a read is not explainable by "own state" or "mean with one partner".
fn observe<'a>(ts: &'a [Term<'a>]) -> Result<(Vec<Option<usize>>, Vec<Obs>), String> {
    let n = ts.len();
    let mut other = vec![None; n];
    let mut full = Vec::new();
    for i in 0..n {
        let s = <Terminal<E> as Getter<State, E>>::get(&ts[i].borrow());
        let c = <Terminal<E> as Getter<Command, E>>::get(&ts[i].borrow());
        let d = <Terminal<E> as Getter<TerminalData, E>>::get(&ts[i].borrow());
        let so = obs(&s);
        let co = obs(&c);
        full.push(so);
        full.push(co);
        let sd = match s {
            Ok(Some(d)) => d,
            _ => return Err(format!("terminal {} state read is {}", i, so.show())),
        };
        let p = sd.value.position;
        let mut partner = None;
        if p == own_pos(i) {
            if sd.time != Time(i as i64) {
                return Err(format!("terminal {} unlinked read has time {}", i, sd.time.0));
            }
        } else {
            for j in 0..n {
                if j != i && (own_pos(i) + own_pos(j)) / 2.0 == p {
                    partner = Some(j);
                }
            }
            match partner {
                None => {
                    return Err(format!(
                        "terminal {} reads position {} which is no mean of two own states",
                        i, p
                    ))
                }
                Some(j) => {
                    if sd.time != Time(i.max(j) as i64) {
                        return Err(format!(
                            "terminal {} linked to {} reads time {} (expected newest {})",
                            i,
                            j,
                            sd.time.0,
                            i.max(j)
                        ));
                    }
                }
            }
        }
        other[i] = partner;
        // command read must be the newer of own (time i) and partner's (time j)
        let exp_cmd = partner.map(|j| j.max(i)).unwrap_or(i);
        match c {
            Ok(Some(cd)) if cd.time == Time(exp_cmd as i64) && cd.value == Command::Position(exp_cmd as f32) => {}
            _ => {
                return Err(format!(
                    "terminal {} (partner {:?}) command read {} but expected command of terminal {}",
                    i,
                    partner,
                    co.show(),
                    exp_cmd
                ))
            }
        }
        match d {
            Ok(Some(dd))
                if dd.time == sd.time
                    && dd.value.time == sd.time
                    && dd.value.state == Some(sd.value)
                    && dd.value.command == Some(Command::Position(exp_cmd as f32)) => {}
            _ => {
                return Err(format!(
                    "terminal {} combined read {:?} disagrees with state/command reads",
                    i, d
                ))
            }
        }
    }
    Ok((other, full))
}

fn relation(st: &[Option<usize>], n: usize, a: usize) -> &'static str {
    let (i, j) = (a / n, a % n);
    if i == j {
        return if st[i].is_some() { "linked" } else { "unlinked" };
    }
    match (st[i], st[j]) {
        (Some(x), _) if x == j => "already-linked-pair",
        (Some(_), Some(_)) => "both-linked-elsewhere",
        (Some(_), None) => "first-linked-elsewhere",
        (None, Some(_)) => "second-linked-elsewhere",
        (None, None) => "both-free",
    }
}

fn model_step(st: &[Option<usize>], n: usize, a: usize) -> Vec<Option<usize>> {
    let (i, j) = (a / n, a % n);
    let mut s = st.to_vec();
    let unlink = |s: &mut Vec<Option<usize>>, x: usize| {
        if let Some(p) = s[x] {
            s[p] = None;
            s[x] = None;
        }
    };
    if i == j {
        unlink(&mut s, i);
    } else {
        unlink(&mut s, i);
        unlink(&mut s, j);
        s[i] = Some(j);
        s[j] = Some(i);
    }
    s
}

fn bfs(n: usize, eng: &mut Eng) {
    let init: Vec<Option<usize>> = vec![None; n];
    let mut seen: HashMap<Vec<Option<usize>>, (Vec<usize>, Vec<Obs>)> = HashMap::new();
    let mut queue: VecDeque<Vec<Option<usize>>> = VecDeque::new();
    // initial state: observe it
    {
        let ts = fresh(n);
        match guard(|| observe(&ts)) {
            Ok(Ok((o, full))) if o == init => {
                seen.insert(init.clone(), (vec![], full));
                queue.push_back(init.clone());
            }
            other => {
                eng.violation("terminals:init:unexpected-observation", 0, || {
                    format!("n={} fresh terminals observe {:?}", n, other.map(|r| r.map(|x| x.0)))
                });
                return;
            }
        }
    }
    eng.states += 1;
    while let Some(st) = queue.pop_front() {
        let hist = seen[&st].0.clone();
        eng.max_depth = eng.max_depth.max(hist.len() as u64 + 1);
        for a in 0..n * n {
            let ts = fresh(n);
            let describe = |what: &str| {
                format!(
                    "n={} history=[{}] then {} :: {}",
                    n,
                    hist.iter().map(|&x| act_name(n, x)).collect::<Vec<_>>().join("; "),
                    act_name(n, a),
                    what
                )
            };
            let replayed = guard(|| {
                for &h in &hist {
                    apply(&ts, n, h);
                }
            });
            eng.transitions += hist.len() as u64;
            if let Err(m) = replayed {
                eng.violation("terminals:replay-nondeterministic", hist.len(), || describe(&m));
                continue;
            }
            let r = guard(|| apply(&ts, n, a));
            eng.transitions += 1;
            eng.executions += 1;
            eng.checks += 1;
            let opname = if a / n == a % n { "disconnect" } else { "connect" };
            let rel = relation(&st, n, a);
            if rel != "both-free" && rel != "unlinked" {
                eng.nontrivial += 1;
            }
            if let Err(m) = r {
                eng.violation(&format!("terminals:{}:{}:panic", opname, rel), hist.len() + 1, || {
                    describe(&format!("panicked: {}", m))
                });
                continue;
            }
            let o = guard(|| observe(&ts));
            let (obs_state, full) = match o {
                Ok(Ok(x)) => x,
                Ok(Err(m)) => {
                    eng.violation(&format!("terminals:{}:{}:bad-read", opname, rel), hist.len() + 1, || describe(&m));
                    continue;
                }
                Err(m) => {
                    eng.violation(&format!("terminals:{}:{}:read-panic", opname, rel), hist.len() + 1, || describe(&m));
                    continue;
                }
            };
            // invariant: symmetric matching
            let mut sym = true;
            for i in 0..n {
                if let Some(j) = obs_state[i] {
                    if j == i || obs_state[j] != Some(i) {
                        sym = false;
                    }
                }
            }
            if !sym {
                eng.violation(&format!("terminals:{}:{}:asymmetric-link", opname, rel), hist.len() + 1, || {
                    describe(&format!("links observed {:?}", obs_state))
                });
                continue;
            }
            let expect = model_step(&st, n, a);
            if obs_state != expect {
                eng.violation(&format!("terminals:{}:{}:postcondition", opname, rel), hist.len() + 1, || {
                    describe(&format!("links observed {:?}, matching model says {:?}", obs_state, expect))
                });
                continue;
            }
            eng.outcome(h64(&full));
            match seen.get(&obs_state) {
                None => {
                    let mut h2 = hist.clone();
                    h2.push(a);
                    eng.sample(|| describe(&format!("-> links {:?}", obs_state)));
                    seen.insert(obs_state.clone(), (h2, full));
                    queue.push_back(obs_state);
                    eng.states += 1;
                }
                Some((_, full0)) => {
                    // differential: same canonical state reached by another history must look the same
                    if *full0 != full {
                        eng.violation("terminals:state-merge:observation-differs", hist.len() + 1, || {
                            describe("same link structure reached by two histories reads differently")
                        });
                    }
                }
            }
        }
    }
    eng.count(&format!("matchings_n{}", n), seen.len() as i128);
}

/// Value clause: own/partner x {state, command} presence x weak timestamp orders.
pub fn values(eng: &mut Eng) {
    for equal_values in [false, true] {
    let s_own = State::new_raw(1.0, 2.0, 3.0);
    let s_par = if equal_values { s_own } else { State::new_raw(8.0, 16.0, 32.0) };
    let c_own = Command::Velocity(5.0);
    let c_par = if equal_values { c_own } else { Command::Position(-7.0) };
    for linked in [false, true] {
        for mask in 0..16u32 {
            let present: Vec<usize> = (0..4).filter(|b| mask & (1 << b) != 0).collect();
            let mut time_sets: Vec<[i64; 4]> = Vec::new();
            for order in weak_orders(present.len()) {
                for base in [10i64, -12i64, i64::MIN] {
                    let mut t = [0i64; 4];
                    for (k, &slot) in present.iter().enumerate() {
                        t[slot] = base + order[k] as i64 * 5;
                    }
                    time_sets.push(t);
                }
                // the same order with timestamps further apart than i64::MAX
                let levels = order.iter().max().map(|m| m + 1).unwrap_or(0);
                for map in extreme_level_maps(levels) {
                    let mut t = [0i64; 4];
                    for (k, &slot) in present.iter().enumerate() {
                        t[slot] = map[order[k]];
                    }
                    time_sets.push(t);
                }
            }
            for t in time_sets {
                eng.executions += 1;
                eng.states += 1;
                if linked && present.len() >= 2 {
                    eng.nontrivial += 1;
                }
                let case = format!(
                    "equal_values={} linked={} own_state={} partner_state={} own_cmd={} partner_cmd={} times={:?}",
                    equal_values,
                    linked,
                    mask & 1 != 0,
                    mask & 2 != 0,
                    mask & 4 != 0,
                    mask & 8 != 0,
                    t
                );
                let r = guard(|| {
                    let a: Term = Terminal::new();
                    let b: Term = Terminal::new();
                    if linked {
                        connect(&a, &b);
                    }
                    if mask & 1 != 0 {
                        a.borrow_mut().set(Datum::new(Time(t[0]), s_own)).unwrap();
                    }
                    if mask & 2 != 0 {
                        b.borrow_mut().set(Datum::new(Time(t[1]), s_par)).unwrap();
                    }
                    if mask & 4 != 0 {
                        a.borrow_mut().set(Datum::new(Time(t[2]), c_own)).unwrap();
                    }
                    if mask & 8 != 0 {
                        b.borrow_mut().set(Datum::new(Time(t[3]), c_par)).unwrap();
                    }
                    let mut out = Vec::new();
                    for x in [&a, &b] {
                        let s = <Terminal<E> as Getter<State, E>>::get(&x.borrow());
                        let c = <Terminal<E> as Getter<Command, E>>::get(&x.borrow());
                        let d = <Terminal<E> as Getter<TerminalData, E>>::get(&x.borrow());
                        // purity: read again
                        let s2 = <Terminal<E> as Getter<State, E>>::get(&x.borrow());
                        let c2 = <Terminal<E> as Getter<Command, E>>::get(&x.borrow());
                        out.push((s, c, d, s2, c2));
                    }
                    out
                });
                eng.transitions += 6;
                let out = match r {
                    Ok(o) => o,
                    Err(m) => {
                        eng.violation("terminal-read:panic", present.len(), || format!("{} :: {}", case, m));
                        continue;
                    }
                };
                eng.outcome(h64(&format!("{:?}", out)));
                for (side, (s, c, d, s2, c2)) in out.iter().enumerate() {
                    eng.checks += 1;
                    if s != s2 || c != c2 {
                        eng.violation("terminal-read:impure", present.len(), || case.clone());
                    }
                    // what this side can see
                    let (own_s, par_s, own_c, par_c) = if side == 0 {
                        (mask & 1 != 0, linked && mask & 2 != 0, mask & 4 != 0, linked && mask & 8 != 0)
                    } else {
                        (mask & 2 != 0, linked && mask & 1 != 0, mask & 8 != 0, linked && mask & 4 != 0)
                    };
                    let (os, ps, ts_own, ts_par) = if side == 0 {
                        (s_own, s_par, t[0], t[1])
                    } else {
                        (s_par, s_own, t[1], t[0])
                    };
                    let (oc, pc, tc_own, tc_par) = if side == 0 {
                        (c_own, c_par, t[2], t[3])
                    } else {
                        (c_par, c_own, t[3], t[2])
                    };
                    let exp_s: Option<Datum<State>> = match (own_s, par_s) {
                        (false, false) => None,
                        (true, false) => Some(Datum::new(Time(ts_own), os)),
                        (false, true) => Some(Datum::new(Time(ts_par), ps)),
                        (true, true) => Some(Datum::new(
                            Time(ts_own.max(ts_par)),
                            State::new_raw(
                                (os.position + ps.position) / 2.0,
                                (os.velocity + ps.velocity) / 2.0,
                                (os.acceleration + ps.acceleration) / 2.0,
                            ),
                        )),
                    };
                    if *s != Ok(exp_s) {
                        eng.violation(
                            &format!("terminal-read:state:{}{}", if own_s { "own" } else { "" }, if par_s { "+partner" } else { "" }),
                            present.len(),
                            || format!("{} side={} read {:?} expected {:?}", case, side, s, exp_s),
                        );
                    }
                    let cands: Vec<Datum<Command>> = [
                        if own_c { Some(Datum::new(Time(tc_own), oc)) } else { None },
                        if par_c { Some(Datum::new(Time(tc_par), pc)) } else { None },
                    ]
                    .into_iter()
                    .flatten()
                    .collect();
                    let ok_c = match c {
                        Ok(None) => cands.is_empty(),
                        Ok(Some(got)) => cands.contains(got) && cands.iter().all(|x| x.time <= got.time),
                        Err(_) => false,
                    };
                    if !ok_c {
                        eng.violation(
                            &format!("terminal-read:command:{}{}", if own_c { "own" } else { "" }, if par_c { "+partner" } else { "" }),
                            present.len(),
                            || format!("{} side={} read {:?} candidates {:?}", case, side, c, cands),
                        );
                    }
                    // combined read
                    let ok_d = match (d, s, c) {
                        (Ok(None), Ok(None), Ok(None)) => true,
                        (Ok(Some(dd)), Ok(sv), Ok(cv)) => {
                            let exp_t = match (sv, cv) {
                                (Some(sd), _) => Some(sd.time),
                                (None, Some(cd)) => Some(cd.time),
                                (None, None) => None,
                            };
                            Some(dd.time) == exp_t
                                && Some(dd.value.time) == exp_t
                                && dd.value.state == sv.map(|x| x.value)
                                && dd.value.command == cv.map(|x| x.value)
                        }
                        _ => false,
                    };
                    if !ok_d {
                        eng.violation("terminal-read:combined", present.len(), || {
                            format!("{} side={} combined {:?} state {:?} command {:?}", case, side, d, s, c)
                        });
                    }
                }
                // both ends of a link read the same state
                if linked && out[0].0 != out[1].0 {
                    eng.violation("terminal-read:ends-disagree", present.len(), || {
                        format!("{} :: {:?} vs {:?}", case, out[0].0, out[1].0)
                    });
                }
                eng.sample(|| format!("{} -> a reads {:?}", case, out[0].0));
            }
        }
    }
    }
}

pub fn run(ctx: &Ctx) -> Vec<Eng> {
    let max_n = if ctx.thorough { 8 } else { 6 };
    let mut e1 = Eng::new(
        "c09-link-bfs",
        "explicit-state BFS: state = link structure decoded from what every terminal reads; actions = connect(i,j) for all ordered i!=j and disconnect(i); each transition executed on fresh real terminals after replaying the state's witness history; non-trivial = the action touches at least one already linked terminal",
        &format!("n = 2..={} terminals, all reachable states x all actions", max_n),
    );
    for n in 2..=max_n {
        bfs(n, &mut e1);
    }
    let mut e2 = Eng::new(
        "c09-read-values",
        "all 16 presence combinations of own/partner state/command x every weak order of the present timestamps x linked/unlinked; non-trivial = linked with at least two data present",
        "2 x sum over masks of weak orders (1,1,3,13,75 per mask size)",
    );
    values(&mut e2);
    vec![e1, e2]
}
