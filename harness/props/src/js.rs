//! Minimal JSON value + writer (no external crates are available offline for this).
use std::fmt::Write;

#[derive(Clone, Debug)]
pub enum J {
    Null,
    B(bool),
    I(i128),
    F(f64),
    S(String),
    A(Vec<J>),
    O(Vec<(String, J)>),
}

impl J {
    pub fn s<T: AsRef<str>>(x: T) -> J {
        J::S(x.as_ref().to_string())
    }
    pub fn obj(pairs: Vec<(&str, J)>) -> J {
        J::O(pairs.into_iter().map(|(k, v)| (k.to_string(), v)).collect())
    }
    pub fn arr_s(v: &[String]) -> J {
        J::A(v.iter().map(|x| J::S(x.clone())).collect())
    }
    pub fn render(&self) -> String {
        let mut out = String::new();
        self.write(&mut out);
        out
    }
    fn write(&self, out: &mut String) {
        match self {
            J::Null => out.push_str("null"),
            J::B(b) => out.push_str(if *b { "true" } else { "false" }),
            J::I(i) => {
                let _ = write!(out, "{}", i);
            }
            J::F(f) => {
                if f.is_finite() {
                    let _ = write!(out, "{}", f);
                } else {
                    let _ = write!(out, "\"{}\"", f);
                }
            }
            J::S(s) => esc(s, out),
            J::A(v) => {
                out.push('[');
                for (i, x) in v.iter().enumerate() {
                    if i > 0 {
                        out.push(',');
                    }
                    x.write(out);
                }
                out.push(']');
            }
            J::O(v) => {
                out.push('{');
                for (i, (k, x)) in v.iter().enumerate() {
                    if i > 0 {
                        out.push(',');
                    }
                    esc(k, out);
                    out.push(':');
                    x.write(out);
                }
                out.push('}');
            }
        }
    }
}

fn esc(s: &str, out: &mut String) {
    out.push('"');
    for c in s.chars() {
        match c {
            '"' => out.push_str("\\\""),
            '\\' => out.push_str("\\\\"),
            '\n' => out.push_str("\\n"),
            '\r' => out.push_str("\\r"),
            '\t' => out.push_str("\\t"),
            c if (c as u32) < 0x20 => {
                let _ = write!(out, "\\u{:04x}", c as u32);
            }
            c => out.push(c),
        }
    }
    out.push('"');
}
