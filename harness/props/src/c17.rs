//! C17 (a) — a Reference, its clones and its to_dyn! conversion all denote one shared object
//! (sequential aliasing clause; the thread clause and the downstream-crate clause are driven
//! from driver/c17_extra.py).
use crate::mc::*;
use crate::Ctx;
use rrtk::*;
use std::sync::atomic::{AtomicBool, Ordering};
use std::sync::Arc;

pub trait Val {
    fn getv(&self) -> i64;
    fn setv(&mut self, v: i64);
}
pub struct Pl {
    v: i64,
    dropped: Arc<AtomicBool>,
}
impl Val for Pl {
    fn getv(&self) -> i64 {
        self.v
    }
    fn setv(&mut self, v: i64) {
        self.v = v;
    }
}
impl Drop for Pl {
    fn drop(&mut self) {
        self.dropped.store(true, Ordering::SeqCst);
    }
}
/// what the harness needs from a target type
pub trait Target: Val + Sized + 'static {
    const NAME: &'static str;
    fn fresh(flag: &Arc<AtomicBool>) -> Self;
    /// has the target made by the last `fresh` been dropped?
    fn dropped(flag: &Arc<AtomicBool>) -> bool {
        flag.load(Ordering::SeqCst)
    }
}
/// A zero-sized target with a destructor: it has no storage, so its "value" and its drop flag
/// live in thread-locals (one sequence runs on one thread). Shortcuts for zero-sized types (no
/// allocation, a dangling but aligned pointer) must still run the destructor exactly when the
/// last handle goes away.
pub struct PlZst;
thread_local! {
    static ZST_VALUE: std::cell::Cell<i64> = std::cell::Cell::new(0);
    static ZST_DROPS: std::cell::Cell<u32> = std::cell::Cell::new(0);
}
impl Val for PlZst {
    fn getv(&self) -> i64 {
        ZST_VALUE.with(|c| c.get())
    }
    fn setv(&mut self, v: i64) {
        ZST_VALUE.with(|c| c.set(v))
    }
}
impl Drop for PlZst {
    fn drop(&mut self) {
        ZST_DROPS.with(|c| c.set(c.get() + 1));
    }
}
impl Target for PlZst {
    const NAME: &'static str = "zero-sized";
    fn fresh(_flag: &Arc<AtomicBool>) -> PlZst {
        ZST_VALUE.with(|c| c.set(0));
        ZST_DROPS.with(|c| c.set(0));
        PlZst
    }
    fn dropped(_flag: &Arc<AtomicBool>) -> bool {
        ZST_DROPS.with(|c| c.get()) > 0
    }
}
impl Target for Pl {
    const NAME: &'static str = "align8";
    fn fresh(flag: &Arc<AtomicBool>) -> Pl {
        Pl { v: 0, dropped: flag.clone() }
    }
}
/// The same payload in types whose layout is unusual: over-aligned (cache-line and page), so
/// that the value does not sit at the customary distance behind an Rc/Arc header or a lock word.
#[repr(align(64))]
pub struct PlWide(Pl);
#[repr(align(4096))]
pub struct PlPage(Pl, [u64; 3]);
impl Val for PlWide {
    fn getv(&self) -> i64 {
        self.0.v
    }
    fn setv(&mut self, v: i64) {
        self.0.v = v;
    }
}
impl Target for PlWide {
    const NAME: &'static str = "align64";
    fn fresh(flag: &Arc<AtomicBool>) -> PlWide {
        PlWide(Pl::fresh(flag))
    }
}
impl Val for PlPage {
    fn getv(&self) -> i64 {
        assert_eq!(self.1, [7, 8, 9], "payload padding words overwritten");
        self.0.v
    }
    fn setv(&mut self, v: i64) {
        self.0.v = v;
    }
}
impl Target for PlPage {
    const NAME: &'static str = "align4096";
    fn fresh(flag: &Arc<AtomicBool>) -> PlPage {
        PlPage(Pl::fresh(flag), [7, 8, 9])
    }
}

#[derive(Clone, Copy, Debug, PartialEq)]
pub enum Variant {
    Ptr,
    RcRefCell,
    #[cfg(feature = "std")]
    PtrRwLock,
    #[cfg(feature = "std")]
    PtrMutex,
    #[cfg(feature = "std")]
    ArcRwLock,
    #[cfg(feature = "std")]
    ArcMutex,
}
pub fn variants() -> Vec<Variant> {
    vec![
        Variant::Ptr,
        Variant::RcRefCell,
        #[cfg(feature = "std")]
        Variant::PtrRwLock,
        #[cfg(feature = "std")]
        Variant::PtrMutex,
        #[cfg(feature = "std")]
        Variant::ArcRwLock,
        #[cfg(feature = "std")]
        Variant::ArcMutex,
    ]
}
impl Variant {
    fn refcounted(&self) -> bool {
        match self {
            Variant::RcRefCell => true,
            #[cfg(feature = "std")]
            Variant::ArcRwLock | Variant::ArcMutex => true,
            _ => false,
        }
    }
    /// variants the to_dyn! macro lists
    fn dyn_listed(&self) -> bool {
        match self {
            Variant::Ptr | Variant::RcRefCell => true,
            #[cfg(feature = "std")]
            Variant::PtrRwLock => true,
            _ => false,
        }
    }
}

enum Handle<P: Target> {
    C(Reference<P>),
    D(Reference<dyn Val>),
}
impl<P: Target> Handle<P> {
    fn read(&self) -> i64 {
        match self {
            Handle::C(r) => {
                let a = r.borrow().getv();
                let b = r.borrow_mut().getv();
                assert_eq!(a, b);
                a
            }
            Handle::D(r) => r.borrow().getv(),
        }
    }
    fn write(&self, v: i64) {
        match self {
            Handle::C(r) => r.borrow_mut().setv(v),
            Handle::D(r) => r.borrow_mut().setv(v),
        }
    }
    fn dup(&self) -> Handle<P> {
        match self {
            Handle::C(r) => Handle::C(r.clone()),
            Handle::D(r) => Handle::D(r.clone()),
        }
    }
}

/// the leaked allocation of pointer variants, reclaimed by the harness after the run
enum Leak<P> {
    None,
    P(*mut P),
    #[cfg(feature = "std")]
    RW(*mut std::sync::RwLock<P>),
    #[cfg(feature = "std")]
    MX(*mut std::sync::Mutex<P>),
}

fn make<P: Target>(v: Variant, flag: &Arc<AtomicBool>) -> (Reference<P>, Leak<P>) {
    let pl = P::fresh(flag);
    match v {
        Variant::Ptr => {
            let p = Box::into_raw(Box::new(pl));
            (unsafe { Reference::from_ptr(p) }, Leak::P(p))
        }
        Variant::RcRefCell => (rc_ref_cell_reference(pl), Leak::None),
        #[cfg(feature = "std")]
        Variant::PtrRwLock => {
            let p = Box::into_raw(Box::new(std::sync::RwLock::new(pl)));
            (unsafe { Reference::from_ptr_rw_lock(p as *const _) }, Leak::RW(p))
        }
        #[cfg(feature = "std")]
        Variant::PtrMutex => {
            let p = Box::into_raw(Box::new(std::sync::Mutex::new(pl)));
            (unsafe { Reference::from_ptr_mutex(p as *const _) }, Leak::MX(p))
        }
        #[cfg(feature = "std")]
        Variant::ArcRwLock => (arc_rw_lock_reference(pl), Leak::None),
        #[cfg(feature = "std")]
        Variant::ArcMutex => (arc_mutex_reference(pl), Leak::None),
    }
}

const SLOTS: usize = 3;
const OPN: [&str; 5] = ["clone", "to_dyn", "read", "write", "drop"];
fn show(seq: &[usize]) -> String {
    seq.iter().map(|&s| format!("{}(h{})", OPN[s / SLOTS], s % SLOTS)).collect::<Vec<_>>().join(",")
}

fn run_seq<P: Target>(v: Variant, seq: &[usize], e: &mut Eng) -> u64 {
    let flag = Arc::new(AtomicBool::new(false));
    let mut leak: Leak<P> = Leak::None;
    let r = guard(|| -> Result<bool, (usize, String)> {
        let (orig, l) = make::<P>(v, &flag);
        leak = l;
        let mut hs: [Option<Handle<P>>; SLOTS] = [Some(Handle::C(orig)), None, None];
        let mut cell: i64 = 0; // model: one cell
        let mut count = 1usize; // model: number of live handles
        let mut interesting = false;
        for (k, &s) in seq.iter().enumerate() {
            let (op, i) = (s / SLOTS, s % SLOTS);
            match op {
                0 => {
                    if let Some(h) = &hs[i] {
                        if let Some(free) = (0..SLOTS).find(|&j| hs[j].is_none()) {
                            hs[free] = Some(h.dup());
                            count += 1;
                        }
                    }
                }
                1 => {
                    if let Some(Handle::C(_)) = &hs[i] {
                        if let Some(Handle::C(r)) = hs[i].take() {
                            if v.dyn_listed() {
                                let d: Reference<dyn Val> = to_dyn!(Val, r);
                                hs[i] = Some(Handle::D(d));
                                interesting = true;
                            } else {
                                // a variant the macro does not list: it may refuse (panic "not implemented",
                                // consuming the handle), but a Reference it does hand out is a handle like any
                                // other - it must alias the target and keep it alive
                                match std::panic::catch_unwind(std::panic::AssertUnwindSafe(|| -> Reference<dyn Val> { to_dyn!(Val, r) })) {
                                    Ok(d) => {
                                        hs[i] = Some(Handle::D(d));
                                        interesting = true;
                                    }
                                    Err(p) => {
                                        let msg = p.downcast_ref::<String>().cloned().or_else(|| p.downcast_ref::<&str>().map(|x| x.to_string())).unwrap_or_default();
                                        if !msg.contains("not implemented") {
                                            std::panic::resume_unwind(p);
                                        }
                                        count -= 1;
                                    }
                                }
                            }
                        }
                    }
                }
                2 => {
                    if let Some(h) = &hs[i] {
                        let got = h.read();
                        if got != cell {
                            return Err((k, format!("read through handle {} gave {} but the last write through any handle was {}", i, got, cell)));
                        }
                        if count >= 2 {
                            interesting = true;
                        }
                    }
                }
                3 => {
                    if let Some(h) = &hs[i] {
                        cell = 100 + k as i64;
                        h.write(cell);
                    }
                }
                _ => {
                    if hs[i].take().is_some() {
                        count -= 1;
                    }
                }
            }
            let dropped = P::dropped(&flag);
            let want = count == 0 && v.refcounted();
            if dropped != want {
                return Err((k, format!("target dropped = {} with {} live handle(s) (variant {:?})", dropped, count, v)));
            }
        }
        // every surviving handle still sees the last write
        for i in 0..SLOTS {
            if let Some(h) = &hs[i] {
                let got = h.read();
                if got != cell {
                    return Err((seq.len(), format!("at the end handle {} reads {} but the cell holds {}", i, got, cell)));
                }
            }
        }
        drop(hs);
        let dropped = P::dropped(&flag);
        if dropped != v.refcounted() {
            return Err((seq.len(), format!("after the last handle went away target dropped = {} (variant {:?})", dropped, v)));
        }
        Ok(interesting)
    });
    // reclaim what the pointer variants leaked
    unsafe {
        match leak {
            Leak::P(p) => drop(Box::from_raw(p)),
            #[cfg(feature = "std")]
            Leak::RW(p) => drop(Box::from_raw(p)),
            #[cfg(feature = "std")]
            Leak::MX(p) => drop(Box::from_raw(p)),
            Leak::None => {}
        }
    }
    e.checks += seq.len() as u64;
    match r {
        Ok(Ok(nt)) => {
            if nt {
                e.nontrivial += 1;
            }
        }
        Ok(Err((k, m))) => e.violation(&format!("reference:{:?}:aliasing", v), k + 1, || format!("{:?} target {} ops [{}]: {}", v, P::NAME, show(&seq[..seq.len().min(k + 1)]), m)),
        Err(m) => {
            let cls = if m.contains("not implemented") { "to_dyn-unimplemented" } else { "panic" };
            e.violation(&format!("reference:{:?}:{}", v, cls), seq.len(), || format!("{:?} target {} ops [{}] panicked: {}", v, P::NAME, show(seq), m))
        }
    }
    seq.len() as u64
}

/// Crash-localising mode (driver sets VERIF_ISOLATE after the normal run died of a signal): the
/// same sequences, shortest first, one at a time, each announced on stderr before it runs, so that
/// the last announcement names the operation sequence during which the process was killed.
fn isolate(ctx: &Ctx) -> Vec<Eng> {
    let mut e = Eng::new("c17-aliasing-isolate", "crash localisation: sequences of length 1..L, one at a time, announced before execution", "");
    let maxlen = if ctx.thorough { 5 } else { 4 };
    for len in 1..=maxlen {
        let mut seq = vec![0usize; len];
        for v in variants() {
            for idx in 0..ipow((5 * SLOTS) as u64, len) {
                decode(idx, (5 * SLOTS) as u64, &mut seq);
                e.executions += 3;
                eprintln!("ISOLATE {:?} align8 [{}]", v, show(&seq));
                run_seq::<Pl>(v, &seq, &mut e);
                eprintln!("ISOLATE {:?} align64 [{}]", v, show(&seq));
                run_seq::<PlWide>(v, &seq, &mut e);
                eprintln!("ISOLATE {:?} align4096 [{}]", v, show(&seq));
                run_seq::<PlPage>(v, &seq, &mut e);
            }
        }
    }
    eprintln!("ISOLATE-DONE");
    vec![e]
}

/// `to_dyn!` argument forms: the macro takes an *expression*. The conversion must evaluate it
/// exactly once and alias the object that this one evaluation denotes, whatever the expression
/// is: a variable, a clone, a consuming expression (`Option::take`, `Vec::pop`, an iterator's
/// `next`, `mem::replace`), a block with a side effect, or a call that builds a new target.
fn arg_forms<P: Target>(v: Variant, e: &mut Eng) {
    const FORMS: [&str; 10] = ["variable", "clone()", "Option::take().unwrap()", "Vec::pop().unwrap()", "Iterator::next().unwrap()", "mem::replace(&mut slot, other)", "block with a counter", "call building a fresh target", "clone() while a shared borrow of the original is held", "clone() while a mutable borrow of the original is held"];
    for (fi, fname) in FORMS.iter().enumerate() {
        let (fa, fb) = (Arc::new(AtomicBool::new(false)), Arc::new(AtomicBool::new(false)));
        let mut leaks: Vec<Leak<P>> = Vec::new();
        let r = guard(|| -> Result<(), String> {
            let (a, la) = make::<P>(v, &fa);
            let (b, lb) = make::<P>(v, &fb);
            leaks.push(la);
            leaks.push(lb);
            a.borrow_mut().setv(11);
            b.borrow_mut().setv(22);
            let (ka, kb) = (a.clone(), b.clone()); // witnesses kept by the harness
            let mut evals = 0u32;
            // `want` = which target the single evaluation of the argument denotes (0 = a, 1 = b, 2 = fresh)
            let (d, want, rest_ok): (Reference<dyn Val>, u8, bool) = match fi {
                0 => {
                    drop(b);
                    (to_dyn!(Val, a), 0, true)
                }
                1 => {
                    let d = to_dyn!(Val, a.clone());
                    drop(b);
                    (d, 0, a.borrow().getv() == 11)
                }
                2 => {
                    drop(b);
                    let mut slot = Some(a);
                    let d = to_dyn!(Val, slot.take().unwrap());
                    (d, 0, slot.is_none())
                }
                3 => {
                    let mut stack = vec![a, b];
                    let d = to_dyn!(Val, stack.pop().unwrap());
                    let ok = stack.len() == 1 && stack[0].borrow().getv() == 11;
                    (d, 1, ok)
                }
                4 => {
                    let mut it = vec![a, b].into_iter();
                    let d = to_dyn!(Val, it.next().unwrap());
                    let rest: Vec<Reference<P>> = it.collect();
                    let ok = rest.len() == 1 && rest[0].borrow().getv() == 22;
                    (d, 0, ok)
                }
                5 => {
                    let mut slot = a;
                    // (every form must still compile if a macro evaluated its argument twice: a harness
                    // that stops compiling is a machinery failure, not a verdict)
                    let d = to_dyn!(Val, core::mem::replace(&mut slot, b.clone()));
                    let ok = slot.borrow().getv() == 22;
                    (d, 0, ok)
                }
                6 => {
                    drop(a);
                    let mut slot = Some(b);
                    let d = to_dyn!(Val, {
                        evals += 1;
                        slot.take().unwrap()
                    });
                    (d, 1, evals == 1)
                }
                8 => {
                    drop(b);
                    let g = a.borrow();
                    let d = to_dyn!(Val, a.clone());
                    let ok = g.getv() == 11;
                    drop(g);
                    (d, 0, ok)
                }
                9 => {
                    drop(b);
                    let mut g = a.borrow_mut();
                    let d = to_dyn!(Val, a.clone());
                    g.setv(11);
                    drop(g);
                    (d, 0, true)
                }
                _ => {
                    drop(a);
                    drop(b);
                    let mut built: Vec<Leak<P>> = Vec::new();
                    let fc = Arc::new(AtomicBool::new(false));
                    let mut mk = || {
                        evals += 1;
                        let (c, lc) = make::<P>(v, &fc);
                        built.push(lc);
                        c.borrow_mut().setv(30 + evals as i64);
                        c
                    };
                    let d = to_dyn!(Val, mk());
                    let n = built.len();
                    leaks.extend(built);
                    (d, 2, evals == 1 && n == 1)
                }
            };
            if !rest_ok {
                return Err(format!("the argument expression was not evaluated exactly once (evaluations counted: {}; or what the expression left behind is not what one evaluation leaves)", evals));
            }
            let expect = [11, 22, 31][want as usize];
            let got = d.borrow().getv();
            if got != expect {
                return Err(format!("the converted Reference reads {} but the object its argument denotes holds {}", got, expect));
            }
            d.borrow_mut().setv(77);
            let (va, vb) = (ka.borrow().getv(), kb.borrow().getv());
            let want_ab = match want {
                0 => (77, 22),
                1 => (11, 77),
                _ => (11, 22),
            };
            if (va, vb) != want_ab {
                return Err(format!("after a write of 77 through the converted Reference the two witnesses read ({}, {}) instead of {:?}", va, vb, want_ab));
            }
            Ok(())
        });
        unsafe {
            for l in leaks.drain(..) {
                match l {
                    Leak::P(p) => drop(Box::from_raw(p)),
                    #[cfg(feature = "std")]
                    Leak::RW(p) => drop(Box::from_raw(p)),
                    #[cfg(feature = "std")]
                    Leak::MX(p) => drop(Box::from_raw(p)),
                    Leak::None => {}
                }
            }
        }
        e.executions += 1;
        e.states += 1;
        e.transitions += 1;
        e.checks += 4;
        e.nontrivial += 1;
        e.outcome(h64(&(v as u8, fi as u8, P::NAME)));
        match r {
            Ok(Ok(())) => {}
            Ok(Err(m)) => e.violation(&format!("reference:{:?}:to_dyn-argument", v), 1, || format!("{:?} target {} to_dyn!(Val, <{}>): {}", v, P::NAME, fname, m)),
            Err(m) => e.violation(&format!("reference:{:?}:to_dyn-argument", v), 1, || format!("{:?} target {} to_dyn!(Val, <{}>) panicked: {}", v, P::NAME, fname, m)),
        }
    }
}

/// The liveness half of the handle-sequence engine for C16 ("no safe program can obtain a Reference
/// that outlives the object it points to"): all sequences of `depth` handle operations on every
/// variant; only clone / to_dyn! / borrow / drop are used, all safe once the Reference exists.
pub fn liveness(e: &mut Eng, depth: usize, budget: Budget) {
    for v in variants() {
        par_seqs(e, 5 * SLOTS, depth, budget, |seq, e| {
            e.outcome(h64(&(v as u8, seq)));
            run_seq::<Pl>(v, seq, e) + run_seq::<PlZst>(v, seq, e)
        });
    }
    arg_forms_all(e);
}
fn arg_forms_all(f: &mut Eng) {
    for v in variants() {
        if v.dyn_listed() {
            arg_forms::<Pl>(v, f);
            arg_forms::<PlWide>(v, f);
            arg_forms::<PlPage>(v, f);
        }
    }
}

pub fn run(ctx: &Ctx) -> Vec<Eng> {
    if std::env::var("VERIF_ISOLATE").is_ok() {
        return isolate(ctx);
    }
    let budget = Budget::secs(if ctx.thorough { 2000 } else { 120 });
    let depth = if ctx.thorough { 7 } else { 5 };
    let mut e = Eng::new(
        "c17-aliasing-seqs",
        "for each Reference variant of the build: all sequences of exactly `depth` operations over {clone(h), to_dyn!(h) (variants the macro does not list may refuse with 'not implemented'; a Reference they do hand out is judged like any other handle), read(h) (through borrow and borrow_mut), write(h, fresh value), drop(h)} x 3 handle slots on a fresh target; reference model = one cell + live-handle count: every read through any handle returns the last write, the payload's drop flag flips exactly when the last handle of an Rc/Arc variant goes away and never for pointer variants; non-trivial = a read while at least two handles are live, or a to_dyn! conversion",
        &format!("depth {} => 15^{} sequences x {} variants on an 8-aligned target, 15^{} on 64- and 4096-aligned and on zero-sized (with a destructor) targets", depth, depth, variants().len(), depth - 1),
    );
    for v in variants() {
        par_seqs(&mut e, 5 * SLOTS, depth, budget, |seq, e| {
            e.outcome(h64(&(v as u8, seq)));
            let a = run_seq::<Pl>(v, seq, e);
            e.sample(|| format!("{:?} [{}]", v, show(seq)));
            a
        });
        // the same sequences (one step shorter) on over-aligned targets
        par_seqs(&mut e, 5 * SLOTS, depth - 1, budget, |seq, e| {
            e.outcome(h64(&(v as u8, 64u8, seq)));
            run_seq::<PlWide>(v, seq, e) + run_seq::<PlPage>(v, seq, e) + run_seq::<PlZst>(v, seq, e)
        });
    }
    // long sequences: default op = read(h0); up to k deviations (any other op) in 12 steps
    let (hz, k) = (12usize, if ctx.thorough { 3 } else { 2 });
    let cases = deviation_cases(hz, 5 * SLOTS - 1, k);
    for v in variants() {
        par_cases(&mut e, &cases, budget, |c, e| {
            let mut seq = vec![2 * SLOTS; hz]; // read(h0)
            for &(p, a) in c {
                let a = a as usize;
                seq[p as usize] = if a >= 2 * SLOTS { a + 1 } else { a };
            }
            e.executions += 1;
            e.states += 1;
            e.max_depth = e.max_depth.max(hz as u64);
            e.transitions += run_seq::<Pl>(v, &seq, e);
            if c.len() <= 1 {
                e.transitions += run_seq::<PlWide>(v, &seq, e);
            }
        });
    }
    e.bounds.push_str(&format!("; plus all 12-operation sequences within {} deviations of read(h0) repeated", k));
    let mut f = Eng::new(
        "c17-to_dyn-argument-forms",
        "for each variant the macro lists x 3 target layouts x 10 argument expression forms (variable, clone(), Option::take().unwrap(), Vec::pop().unwrap(), Iterator::next().unwrap(), mem::replace, a block with a side effect, a call that builds a fresh target, a clone converted while a shared / a mutable borrow of the original is held - the conversion itself borrows nothing) over two distinguishable targets: the conversion evaluates its argument exactly once, reads the value of the object that evaluation denotes, and a write through it is seen by the harness' witness clone of that object and not by the other target",
        "10 argument forms x listed variants x 3 layouts (complete for this family)",
    );
    arg_forms_all(&mut f);
    f.max_depth = 1;
    vec![e, f]
}
