//! C04 — PIDControllerStream output equals the textbook discrete PID of its input history.
use crate::env::*;
use crate::mc::*;
use crate::refmodels::*;
use crate::Ctx;
use rrtk::streams::control::*;
use rrtk::streams::converters::*;
use rrtk::streams::math::*;
use rrtk::*;
use std::cell::RefCell;
use std::rc::Rc;

#[derive(Clone, Copy, Debug, PartialEq)]
pub enum Ev {
    P(i64, f32), // interval since the previous event in ns, sample value
    N(i64),
    Er(i64, u8),
}
pub fn ev_dt(e: &Ev) -> i64 {
    match e {
        Ev::P(d, _) | Ev::N(d) | Ev::Er(d, _) => *d,
    }
}
pub fn show(h: &[Ev]) -> String {
    h.iter()
        .map(|e| match e {
            Ev::P(d, v) => format!("P(+{}ns,{:?})", d, v),
            Ev::N(_) => "N".to_string(),
            Ev::Er(_, 0) => "FromNone".to_string(),
            Ev::Er(_, c) => format!("E{}", c),
        })
        .collect::<Vec<_>>()
        .join(",")
}

#[derive(Clone, Copy)]
pub struct Gains {
    kp: f32,
    ki: f32,
    kd: f32,
    sp: f32,
}
pub const GAINS: [Gains; 8] = [
    Gains { kp: 1.0, ki: 0.0, kd: 0.0, sp: 0.0 },
    Gains { kp: 0.0, ki: 1.0, kd: 0.0, sp: 5.0 },
    Gains { kp: 0.0, ki: 0.0, kd: 1.0, sp: -3.0 },
    Gains { kp: 2.0, ki: 0.5, kd: 0.25, sp: 5.0 },
    // thorough tier only: negative, large, tiny and non-dyadic gains
    Gains { kp: -1.5, ki: -0.25, kd: 4.0, sp: -2.0 },
    Gains { kp: 1000.0, ki: 0.001, kd: 100.0, sp: 1024.0 },
    Gains { kp: 0.1, ki: 0.3, kd: 0.7, sp: 0.2 },
    Gains { kp: 0.0, ki: 0.0, kd: 0.0, sp: 7.0 },
];

/// Textbook PID: memory is (previous error, its time, running trapezoid integral).
struct RefPid {
    g: Gains,
    prev: Option<(i64, Tr)>,
    int: Tr,
}
impl RefPid {
    fn new(g: Gains) -> Self {
        RefPid { g, prev: None, int: Tr::exact(0.0) }
    }
    fn reset(&mut self) {
        self.prev = None;
        self.int = Tr::exact(0.0);
    }
    fn sample(&mut self, t: i64, v: f32) -> Tr {
        let e = Tr::exact(self.g.sp).sub(Tr::exact(v));
        let (i, d) = match self.prev {
            None => (Tr::exact(0.0), Tr::exact(0.0)),
            Some((tp, ep)) => {
                let dt = secs(t - tp);
                let d = e.sub(ep).div(dt);
                let add = dt.mul(ep.add(e)).div(Tr::exact(2.0));
                self.int = self.int.add(add);
                (self.int, d)
            }
        };
        self.prev = Some((t, e));
        Tr::exact(self.g.kp).mul(e).add(Tr::exact(self.g.ki).mul(i)).add(Tr::exact(self.g.kd).mul(d))
    }
}

/// The same controller assembled from the crate's primitive streams (after examples/pid.rs;
/// every inner stream is updated on every round whatever the others returned).
struct Composed {
    int: Rc<RefCell<IntegralStream<dyn Getter<Quantity, E>, E>>>,
    drv: Rc<RefCell<DerivativeStream<dyn Getter<Quantity, E>, E>>>,
    floats: Vec<Rc<RefCell<QuantityToFloat<dyn Getter<Quantity, E>, E>>>>,
    out: SumStream<f32, 3, E>,
}
impl Composed {
    fn new(input: Reference<dyn Getter<Quantity, E>>, g: Gains) -> Self {
        let tg = rc(TimeGetterFromGetter::new(input.clone()));
        let cg = |v: f32, u: Unit| rc(ConstantGetter::new(rf(&tg), Quantity::new(v, u)));
        let sp = cg(g.sp, MILLIMETER);
        let kp = cg(g.kp, DIMENSIONLESS);
        let ki = cg(g.ki, DIMENSIONLESS);
        let kd = cg(g.kd, DIMENSIONLESS);
        let error = rc(DifferenceStream::new(rf(&sp), input.clone()));
        let err_dyn = || dyn_getter::<Quantity, _>(&error);
        let int = rc(IntegralStream::new(err_dyn()));
        let drv = rc(DerivativeStream::new(err_dyn()));
        let int_z = rc(NoneToValue::new(rf(&int), rf(&tg), Quantity::new(0.0, MILLIMETER)));
        let drv_z = rc(NoneToValue::new(rf(&drv), rf(&tg), Quantity::new(0.0, MILLIMETER)));
        let kp_mul = rc(ProductStream::new([dyn_getter(&kp), err_dyn()]));
        let ki_mul = rc(ProductStream::new([dyn_getter(&ki), dyn_getter(&int_z)]));
        let kd_mul = rc(ProductStream::new([dyn_getter(&kd), dyn_getter(&drv_z)]));
        let f = |r: Reference<dyn Getter<Quantity, E>>| rc(QuantityToFloat::new(r));
        let floats = vec![f(dyn_getter(&kp_mul)), f(dyn_getter(&ki_mul)), f(dyn_getter(&kd_mul))];
        let out = SumStream::new([dyn_getter(&floats[0]), dyn_getter(&floats[1]), dyn_getter(&floats[2])]);
        Composed { int, drv, floats, out }
    }
    fn update(&mut self) {
        let _ = self.int.borrow_mut().update();
        let _ = self.drv.borrow_mut().update();
        for f in &self.floats {
            let _ = f.borrow_mut().update();
        }
    }
}

struct Real {
    inp: Rc<RefCell<Scr<f32>>>,
    pid: PIDControllerStream<Scr<f32>, E>,
}
fn mk_real(g: Gains, scale: f32) -> Real {
    let inp = rc(Scr::<f32>::new(Ok(None)));
    let pid = PIDControllerStream::new(rf(&inp), g.sp * scale, PIDKValues::new(g.kp, g.ki, g.kd));
    Real { inp, pid }
}

/// Execute a history on the real controller; returns per step (update result, get obs).
pub fn run_real(g: Gains, h: &[Ev], t0: i64, scale: f32) -> Vec<(u32, Obs)> {
    let mut r = mk_real(g, scale);
    let mut t = t0;
    let mut out = Vec::with_capacity(h.len());
    for e in h {
        t += ev_dt(e);
        r.inp.borrow_mut().next = match e {
            Ev::P(_, v) => Ok(Some(Datum::new(Time(t), *v * scale))),
            Ev::N(_) => Ok(None),
            Ev::Er(_, c) => Err(err_val(*c)),
        };
        let u = r.pid.update();
        out.push((obs_unit(&u), obs(&r.pid.get())));
    }
    out
}

pub fn run_composed(g: Gains, h: &[Ev], t0: i64) -> Vec<Obs> {
    let inp = rc(Scr::<Quantity>::new(Ok(None)));
    let mut c = Composed::new(dyn_getter(&inp), g);
    let mut t = t0;
    let mut out = Vec::new();
    for e in h {
        t += ev_dt(e);
        inp.borrow_mut().next = match e {
            Ev::P(_, v) => Ok(Some(Datum::new(Time(t), Quantity::new(*v, MILLIMETER)))),
            Ev::N(_) => Ok(None),
            Ev::Er(_, c) => Err(err_val(*c)),
        };
        c.update();
        out.push(obs(&c.out.get()));
    }
    out
}

pub struct Opts {
    pub meta: bool,
    pub compose: bool,
}

pub fn check_history(gi: usize, h: &[Ev], e: &mut Eng, o: &Opts) -> u64 {
    check_history_g(GAINS[gi], gi, h, e, o)
}
/// the same for an arbitrary gain set (`gi` only labels the witness)
pub fn check_history_g(g: Gains, gi: usize, h: &[Ev], e: &mut Eng, o: &Opts) -> u64 {
    let t0 = 10 * S;
    let n = h.len();
    let mut applied = n as u64;
    let main = match guard(|| run_real(g, h, t0, 1.0)) {
        Ok(m) => m,
        Err(m) => {
            e.violation("pid:panic", n, || format!("gains#{} history [{}] panicked: {}", gi, show(h), m));
            return applied;
        }
    };
    e.outcome(h64(&(gi, &main)));
    // textbook reference after every event
    let mut r = RefPid::new(g);
    let mut t = t0;
    let mut refs: Vec<Option<Tr>> = Vec::with_capacity(n);
    let mut nontrivial = false;
    let (mut n_exact, mut n_tol) = (0i128, 0i128);
    for (k, ev) in h.iter().enumerate() {
        t += ev_dt(ev);
        e.checks += 1;
        match ev {
            Ev::P(_, v) => {
                if r.prev.is_some() && k >= 2 {
                    nontrivial = true;
                }
                let exp = r.sample(t, *v);
                if exp.robust {
                    n_exact += 1;
                } else {
                    n_tol += 1;
                }
                refs.push(Some(exp));
                let (u, got) = main[k];
                let ok = u == 0 && got.is_some() && got.time == t && exp.agrees(got.f(0), 8.0);
                if !ok {
                    e.violation(if got.is_some() && got.time != t { "pid:time" } else { "pid:value" }, k + 1, || {
                        format!(
                            "gains#{} (kp={},ki={},kd={},setpoint={}) history [{}]: after event {} update()={} get()={} but the textbook PID gives {} at time {}",
                            gi, g.kp, g.ki, g.kd, g.sp, show(&h[..=k]), k, u, got.show(), exp.show(), t
                        )
                    });
                    break;
                }
            }
            Ev::N(_) => {
                r.reset();
                refs.push(None);
                if main[k].0 != 0 {
                    e.violation("pid:update-result", k + 1, || format!("history [{}]: update() on an absent input returned error code {}", show(&h[..=k]), main[k].0 - 2));
                }
            }
            Ev::Er(_, c) => {
                r.reset();
                refs.push(None);
                if main[k].0 != obs_unit(&Err(err_val(*c))) {
                    e.violation("pid:update-result", k + 1, || format!("history [{}]: update() did not return the input's error", show(&h[..=k])));
                }
            }
        }
    }
    if nontrivial {
        e.nontrivial += 1;
    }
    e.count("bit_exact_reference_checks", n_exact);
    e.count("tolerance_reference_checks", n_tol);
    if o.meta {
        // shift invariance: bit-identical values, shifted times
        for shift in [-1_000_000_000_000_000i64, 7, 100_000_000_000_000_000] {
            if let Ok(sh) = guard(|| run_real(g, h, t0 + shift, 1.0)) {
                applied += n as u64;
                for k in 0..n {
                    e.checks += 1;
                    let (a, b) = (main[k], sh[k]);
                    let same = a.0 == b.0 && a.1.tag == b.1.tag && a.1.bits == b.1.bits && (a.1.tag != 1 || a.1.time + shift == b.1.time);
                    if !same {
                        e.violation("pid:shift-variance", k + 1, || {
                            format!("gains#{} history [{}]: with all timestamps shifted by {} event {} gives {} instead of {}", gi, show(&h[..=k]), shift, k, b.1.show(), a.1.show())
                        });
                        break;
                    }
                }
            }
        }
        // power-of-two scaling of setpoint and samples scales the output exactly
        for scale in [0.125f32, 16.0] {
            if let Ok(sc) = guard(|| run_real(g, h, t0, scale)) {
                applied += n as u64;
                for k in 0..n {
                    e.checks += 1;
                    let (a, b) = (main[k], sc[k]);
                    let same = a.0 == b.0 && a.1.tag == b.1.tag && (a.1.tag != 1 || (a.1.time == b.1.time && a.1.f(0) * scale == b.1.f(0)));
                    if !same {
                        e.violation("pid:scale-variance", k + 1, || {
                            format!("gains#{} history [{}]: with setpoint and samples scaled by {} event {} gives {} instead of {} x {}", gi, show(&h[..=k]), scale, k, b.1.show(), a.1.show(), scale)
                        });
                        break;
                    }
                }
            }
        }
    }
    if o.compose {
        match guard(|| run_composed(g, h, t0)) {
            Err(m) => e.violation("pid:composition-panic", n, || format!("history [{}]: composed controller panicked: {}", show(h), m)),
            Ok(c) => {
                applied += n as u64;
                let mut t = t0;
                for k in 0..n {
                    t += ev_dt(&h[k]);
                    if let (Ev::P(..), Some(exp)) = (&h[k], refs.get(k).copied().flatten()) {
                        e.checks += 1;
                        let got = c[k];
                        let real = main[k].1;
                        // composed vs textbook, and composed vs real (within twice the bound when inexact)
                        let ok = got.is_some() && got.time == t && exp.agrees(got.f(0), 8.0);
                        if !ok {
                            e.violation("pid:composition-differs", k + 1, || {
                                format!(
                                    "gains#{} history [{}]: at event {} the controller composed from difference/integral/derivative/product/sum streams gives {} but PIDControllerStream gives {} (textbook {})",
                                    gi, show(&h[..=k]), k, got.show(), real.show(), exp.show()
                                )
                            });
                            break;
                        }
                    }
                }
            }
        }
    }
    applied
}

pub fn exact_syms() -> Vec<Ev> {
    let mut v = Vec::new();
    for dt in [S / 2, S, 2 * S] {
        for x in [0.0f32, 1.0, -2.0] {
            v.push(Ev::P(dt, x));
        }
    }
    v.push(Ev::N(S));
    v.push(Ev::Er(S, 1));
    v.push(Ev::Er(S, 0)); // the crate's own Error::FromNone
    v
}
pub fn broad_syms() -> Vec<Ev> {
    let mut v = Vec::new();
    for dt in [1_000i64, 1_000_000, S / 2, S / 2 + (1i64 << 32), S, S + (1i64 << 32), 3600 * S] {
        for x in [0.1f32, -7.3, 1000.0] {
            v.push(Ev::P(dt, x));
        }
    }
    v.push(Ev::N(S));
    v.push(Ev::Er(S, 1));
    v
}

pub fn run(ctx: &Ctx) -> Vec<Eng> {
    let budget = Budget::secs(if ctx.thorough { 2000 } else { 120 });
    let depth = if ctx.thorough { 7 } else { 5 };
    let syms = exact_syms();
    let mut e1 = Eng::new(
        "c04-seqs-exact",
        "all histories of exactly `depth` events over {P(dt,v): dt in {0.5,1,2}s, v in {0,1,-2}} + {N,E1,E2} x 4 gain/setpoint sets; after every present sample get() must equal the textbook PID (bit-exact: every intermediate is dyadic) stamped with the input time, update() Ok / the input's error; metamorphic: timestamps shifted by -1e15, +7, +1e17 ns (bit-identical), setpoint and samples scaled by 2^-3 and 2^4 (exact scaling); differential: the controller composed from the crate's own primitive streams; non-trivial = a present sample with history behind it at depth >= 3",
        &format!("depth {} => 12^{} histories x 4 gain sets", depth, depth),
    );
    let ng = if ctx.thorough { 8 } else { 4 };
    for gi in 0..ng {
        let depth = if gi >= 4 { depth - 1 } else { depth };
        par_seqs(&mut e1, syms.len(), depth, budget, |seq, e| {
            let h: Vec<Ev> = seq.iter().map(|&s| syms[s]).collect();
            let a = check_history(gi, &h, e, &Opts { meta: true, compose: true });
            e.sample(|| format!("gains#{} [{}]", gi, show(&h)));
            a
        });
    }
    let bdepth = if ctx.thorough { 6 } else { 4 };
    let bs = broad_syms();
    let mut e2 = Eng::new(
        "c04-seqs-broad",
        "same, over the broad alphabet {P(dt,v): dt in {1us,1ms,0.5s,0.5s+2^32ns,1s,1s+2^32ns,1h} (pairs congruent modulo 2^32 ns on both sides of 5 s), v in {0.1,-7.3,1000}} + {N,E1}: f64 reference with a running forward-error bound (8x) where intermediates are not exactly representable; shift invariance stays bit-exact",
        &format!("depth {} => 23^{} histories x 4 gain sets", bdepth, bdepth),
    );
    for gi in 0..ng {
        let bdepth = if gi >= 4 { bdepth - 1 } else { bdepth };
        par_seqs(&mut e2, bs.len(), bdepth, budget, |seq, e| {
            let h: Vec<Ev> = seq.iter().map(|&s| bs[s]).collect();
            let a = check_history(gi, &h, e, &Opts { meta: true, compose: true });
            e.sample(|| format!("gains#{} [{}]", gi, show(&h)));
            a
        });
    }
    let (hz, k) = if ctx.thorough { (48, 3) } else { (40, 2) };
    let mut e3 = Eng::new(
        "c04-deviations",
        "all histories of exactly H events that differ from the default stream P(1 s, cycle of {0,1,-2,3}) in at most k positions, a deviation being one of {N, E1, P(0.5 s), P(2 s), P(1 us), P(1 h), P(1 s + 2^32 ns), P(2^24+1 ns), P(2^31 ns), P(d + 2^32 ns) for the short deviation interval d}; full gain set; textbook reference + shift invariance + composition",
        &format!("H={} k={}", hz, k),
    );
    let cases = deviation_cases(hz, 10, k);
    let cyc = [0.0f32, 1.0, -2.0, 3.0];
    par_cases(&mut e3, &cases, budget, |c, e| {
        let mut h: Vec<Ev> = (0..hz).map(|i| Ev::P(S, cyc[i % 4])).collect();
        for &(p, a) in c {
            let v = cyc[(p as usize + 1) % 4];
            h[p as usize] = match a {
                0 => Ev::N(S),
                1 => Ev::Er(S, 1),
                2 => Ev::P(S / 2, v),
                3 => Ev::P(2 * S, v),
                4 => Ev::P(1000, v),
                5 => Ev::P(3600 * S, v),
                6 => Ev::P(S + (1i64 << 32), v),
                7 => Ev::P((1i64 << 24) + 1, v),
                8 => Ev::P(1i64 << 31, v),
                _ => Ev::P(S / 2 + (1i64 << 32), v),
            };
        }
        e.executions += 1;
        e.states += 1;
        e.max_depth = e.max_depth.max(hz as u64);
        e.transitions += check_history(3, &h, e, &Opts { meta: c.len() < 3, compose: true });
        if c.len() == k {
            e.sample(|| format!("[{}]", show(&h)));
        }
    });
    let (ph, maxp) = if ctx.thorough { (64, 5) } else { (40, 4) };
    let mut e4 = Eng::new(
        "c04-periodic",
        "periodic histories: every primitive word of length <= p over {P(1 s), P(0.5 s), P(2 s), N, E1} repeated to H events (sample values cycle through {0,1,-2,3}), and every history differing from one of these in exactly one position; full gain set; textbook reference + shift invariance + composition (many resets / errors in a regular pattern over a long run)",
        &format!("H={} p<={} => {} histories", ph, maxp, periodic_count(5, maxp, ph)),
    );
    par_periodic(&mut e4, 5, maxp, ph, budget, |seq, e| {
        let h: Vec<Ev> = seq
            .iter()
            .enumerate()
            .map(|(i, &s)| match s {
                0 => Ev::P(S, cyc[i % 4]),
                1 => Ev::P(S / 2, cyc[i % 4]),
                2 => Ev::P(2 * S, cyc[i % 4]),
                3 => Ev::N(S),
                _ => Ev::Er(S, 1),
            })
            .collect();
        e.sample(|| format!("[{}]", show(&h)));
        check_history(3, &h, e, &Opts { meta: false, compose: true })
    });
    par_long(&mut e4, 5, 2, &LONG_LENS, budget, |seq, e| {
        let h: Vec<Ev> = seq
            .iter()
            .enumerate()
            .map(|(i, &s)| match s {
                0 => Ev::P(S, cyc[i % 4]),
                1 => Ev::P(S / 2, cyc[i % 4]),
                2 => Ev::P(2 * S, cyc[i % 4]),
                3 => Ev::N(S),
                _ => Ev::Er(S, 1),
            })
            .collect();
        check_history(3, &h, e, &Opts { meta: false, compose: false })
    });
    e4.bounds.push_str(&format!("; plus long runs: every primitive word of length <= 2 repeated to 255..257 and 511..513 events followed by one event of each kind ({} histories)", long_count(5, 2, &LONG_LENS)));
    // ---- dense sweeps of continuous parameters (ratios of consecutive intervals, of consecutive
    // values, and each gain / the setpoint), 8-event histories, tolerance-mode reference
    let grid = ratio_grid(if ctx.thorough { 32 } else { 16 }, 6);
    let mut e5 = Eng::new(
        "c04-ratio-sweeps",
        "8-sample histories in which (a) consecutive sampling intervals alternate between d0 and d0*r (patterns d0,d0,d0r,d0r,d0,d0r,d0,d0 and its inverse), d0 in {7 ms, 0.5 s, 37 s}, (b) consecutive sample values are v0*q^k for exponent patterns 0,1,2,1,0,1,1,0, v0 in {1.7, -640}, (c) one of kp, ki, kd, setpoint is scaled by the ratio, for every ratio of a dense grid (geometric steps of 2^(1/16) (thorough 2^(1/32)) over 2^-6..2^6 plus 1 +- 2^-k, k = 3..20); full gain set; textbook reference with forward-error bound + composition oracle",
        &format!("{} ratios x (6 interval + 2 value + 8 gain) sweeps", grid.len()),
    );
    {
        let pat_a: [i32; 8] = [0, 0, 1, 1, 0, 1, 0, 0];
        let vpat: [i32; 8] = [0, 1, 2, 1, 0, 1, 1, 0];
        let mut cases: Vec<(u8, usize, f64)> = Vec::new();
        for &r in &grid {
            for k in 0..6 {
                cases.push((0, k, r));
            }
            for k in 0..2 {
                cases.push((1, k, r));
            }
            for k in 0..8 {
                cases.push((2, k, r));
            }
        }
        par_cases(&mut e5, &cases, budget, |&(what, k, r), e| {
            e.executions += 1;
            e.states += 1;
            e.max_depth = e.max_depth.max(8);
            let mut g = GAINS[3];
            let h: Vec<Ev> = match what {
                0 => {
                    let d0 = [7_000_000i64, S / 2, 37 * S][k % 3] as f64;
                    let inv = k >= 3;
                    (0..8).map(|i| Ev::P((d0 * if (pat_a[i] == 1) != inv { r } else { 1.0 }).round().max(1.0) as i64, cyc[i % 4])).collect()
                }
                1 => {
                    let v0 = [1.7f64, -640.0][k];
                    (0..8).map(|i| Ev::P([S / 2, 700_000_000][i % 2], (v0 * r.powi(vpat[i])) as f32)).collect()
                }
                _ => {
                    let base = if k >= 4 { GAINS[6] } else { GAINS[3] };
                    g = base;
                    match k % 4 {
                        0 => g.kp = (base.kp as f64 * r) as f32,
                        1 => g.ki = (base.ki as f64 * r) as f32,
                        2 => g.kd = (base.kd as f64 * r) as f32,
                        _ => g.sp = (base.sp as f64 * r) as f32,
                    }
                    (0..8).map(|i| Ev::P([S / 2, 700_000_000, 2 * S][i % 3], cyc[i % 4] * 1.3)).collect()
                }
            };
            e.sample(|| format!("sweep kind {} #{} ratio {:.5} [{}]", what, k, r, show(&h)));
            e.transitions += check_history_g(g, 99, &h, e, &Opts { meta: false, compose: true });
        });
    }
    let mut eT = Eng::new(
        "c04-interleaved-twins",
        "two PIDControllerStreams alive at once and fed different histories in lockstep (engine shared with C05): every history of 4 events over {P(1), P(-2), N, E1, FromNone} against 8 partner histories, in both update orders; every update result and get() of each must equal its solo run (state shared between instances breaks this)",
        "5^4 histories x 8 partners x 2 orders",
    );
    {
        let partners: Vec<Vec<usize>> = vec![vec![0, 0, 0, 0], vec![1, 1, 1, 1], vec![0, 1, 0, 1], vec![2, 1, 1, 0], vec![3, 0, 1, 1], vec![1, 2, 0, 0], vec![0, 4, 1, 0], vec![2, 2, 2, 2]];
        let partners = &partners;
        for kind in [0usize] {
            par(&mut eT, 625 * 8 * 2, 64, budget, |idx, e| {
                let idx = idx as usize;
                let (ia, ip, swap) = (idx / 16, (idx / 2) % 8, idx % 2 == 1);
                let mut da = vec![0usize; 4];
                decode(ia as u64, 5, &mut da);
                let full: Vec<crate::c05::Ev> = da.iter().map(|&i| crate::c05::SYMS[i]).collect();
                let part: Vec<crate::c05::Ev> = partners[ip].iter().map(|&i| crate::c05::SYMS[i]).collect();
                let (ha, hb) = if swap { (part, full) } else { (full, part) };
                e.executions += 1;
                e.states += 1;
                e.nontrivial += 1;
                e.transitions += crate::c05::twins(kind, &ha, &hb, e);
            });
        }
    }
    let ew = crate::c05::wiring_engine("c04-input-wirings", &[0], 5, budget);
    vec![e1, e2, e3, e4, e5, eT, ew]
}
