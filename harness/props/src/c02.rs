//! C02 — stateless combinators honour their documented error / absent / present contract.
//! (Also provides the stream-level timestamp cases that C03 re-uses.)
use crate::env::*;
use crate::mc::*;
use crate::Ctx;
use rrtk::streams::converters::*;
use rrtk::streams::flow::*;
use rrtk::streams::logic::*;
use rrtk::streams::math::*;
use rrtk::streams::*;
use rrtk::*;

#[derive(Clone, Copy, Debug, PartialEq, Eq, Hash)]
pub enum In {
    E(u8),
    N,
    P,
}
/// error code 0 stands for the crate's own `Error::FromNone`, any other code k for `Error::Other(k)`
pub const CATS: [In; 5] = [In::P, In::N, In::E(1), In::E(2), In::E(0)];
pub fn err_of(k: u8) -> Error<E> {
    if k == 0 {
        Error::FromNone
    } else {
        Error::Other(k)
    }
}
const PRIMES: [f32; 8] = [2.0, 3.0, 5.0, 7.0, 11.0, 13.0, 17.0, 19.0];

fn cat_name(c: &[In]) -> String {
    c.iter()
        .map(|x| match x {
            In::E(0) => "FromNone".to_string(),
            In::E(k) => format!("E{}", k),
            In::N => "N".to_string(),
            In::P => "P".to_string(),
        })
        .collect::<Vec<_>>()
        .join(",")
}

fn mk<T: Clone>(c: In, t: i64, v: T) -> Output<T, E> {
    match c {
        In::E(k) => Err(err_of(k)),
        In::N => Ok(None),
        In::P => Ok(Some(Datum::new(Time(t), v))),
    }
}

/// Expected result of a combinator: a set of acceptable observations.
struct Exp {
    /// acceptable (tag, payload bits) alternatives, each with a list of acceptable times
    alts: Vec<(Obs, Vec<i64>)>,
}
impl Exp {
    fn one(o: Obs) -> Exp {
        Exp { alts: vec![(o, vec![o.time])] }
    }
    fn err(k: u8) -> Exp {
        Exp::one(Obs::err(&err_of(k)))
    }
    fn none() -> Exp {
        Exp::one(Obs::NONE)
    }
    fn some(bits: [u32; 4], times: Vec<i64>) -> Exp {
        Exp { alts: vec![(Obs { tag: 1, time: 0, bits }, times)] }
    }
    fn or(mut self, other: Exp) -> Exp {
        self.alts.extend(other.alts);
        self
    }
    /// 0 = ok, 1 = category/value wrong, 2 = only the timestamp is wrong
    fn judge(&self, got: &Obs) -> u8 {
        let mut val_ok = false;
        for (o, times) in &self.alts {
            if o.tag == got.tag && o.bits == got.bits {
                if got.tag != 1 || times.contains(&got.time) {
                    return 0;
                }
                val_ok = true;
            }
        }
        if val_ok {
            2
        } else {
            1
        }
    }
    fn show(&self) -> String {
        self.alts
            .iter()
            .map(|(o, t)| if o.tag == 1 { format!("{} with time in {:?}", o.show(), t) } else { o.show() })
            .collect::<Vec<_>>()
            .join(" | ")
    }
}

fn first_err(c: &[In]) -> Option<u8> {
    c.iter().find_map(|x| if let In::E(k) = x { Some(*k) } else { None })
}

fn newest(times: &[i64]) -> i64 {
    *times.iter().max().unwrap()
}

struct Judge<'a> {
    eng: &'a mut Eng,
    time_only: bool,
}
impl<'a> Judge<'a> {
    fn check(&mut self, name: &str, case: &dyn Fn() -> String, got: Result<[Obs; 3], String>, exp: &Exp, size: usize) {
        self.eng.checks += 1;
        match got {
            Err(m) => {
                if !self.time_only {
                    self.eng.violation(&format!("comb:{}:panic", name), size, || format!("{} panicked: {}", case(), m));
                }
            }
            Ok(g) => {
                self.eng.outcome(h64(&(name, g[0])));
                if g[0] != g[1] || g[1] != g[2] {
                    if !self.time_only {
                        self.eng.violation(&format!("comb:{}:impure", name), size, || {
                            format!("{}: three consecutive get() calls returned {} / {} / {}", case(), g[0].show(), g[1].show(), g[2].show())
                        });
                    }
                    return;
                }
                match exp.judge(&g[0]) {
                    0 => {}
                    1 => {
                        // newest-of is a selection: picking a non-newest candidate is a C03 matter too
                        if !self.time_only || name == "newest-of" {
                            self.eng.violation(&format!("comb:{}:outcome", name), size, || {
                                format!("{}: get() = {} but the documented outcome is {}", case(), g[0].show(), exp.show())
                            });
                        }
                    }
                    _ => {
                        self.eng.violation(&format!("comb:{}:time", name), size, || {
                            format!("{}: get() = {} but the timestamp must be {}", case(), g[0].show(), exp.show())
                        });
                    }
                }
            }
        }
    }
}

fn three<T: Payload, G: Getter<T, E> + ?Sized>(g: &G) -> [Obs; 3] {
    [obs(&g.get()), obs(&g.get()), obs(&g.get())]
}

// ------------------------------------------------------------------ n-ary
fn nary<const N: usize>(cats: &[In], times: &[i64], j: &mut Judge, quantity: bool) {
    let case = || format!("arity {} inputs [{}] times {:?}", N, cat_name(cats), times);
    let present: Vec<usize> = (0..N).filter(|&i| cats[i] == In::P).collect();
    let ptimes: Vec<i64> = present.iter().map(|&i| times[i]).collect();
    // f32 payload
    {
        let ins: Vec<_> = (0..N).map(|i| rc(Scr::<f32>::new(mk(cats[i], times[i], PRIMES[i])))).collect();
        let arr = || -> [Reference<dyn Getter<f32, E>>; N] { core::array::from_fn(|i| dyn_getter(&ins[i])) };
        let exp_fold = |f: fn(f32, f32) -> f32| -> Exp {
            if let Some(k) = first_err(cats) {
                Exp::err(k)
            } else if present.is_empty() {
                Exp::none()
            } else {
                let mut v = PRIMES[present[0]];
                for &i in &present[1..] {
                    v = f(v, PRIMES[i]);
                }
                Exp::some(v.bits(), vec![newest(&ptimes)])
            }
        };
        let got = guard(|| three(&SumStream::new(arr())));
        j.check("sum", &case, got, &exp_fold(|a, b| a + b), N);
        let got = guard(|| three(&ProductStream::new(arr())));
        j.check("product", &case, got, &exp_fold(|a, b| a * b), N);
        let got = guard(|| three(&Latest::new(arr())));
        let exp = if present.is_empty() {
            Exp::none()
        } else {
            let nt = newest(&ptimes);
            let mut e = Exp { alts: vec![] };
            for &i in &present {
                if times[i] == nt {
                    e.alts.push((Obs { tag: 1, time: 0, bits: PRIMES[i].bits() }, vec![nt]));
                }
            }
            e
        };
        j.check("newest-of", &case, got, &exp, N);
        // inputs untouched
        for i in 0..N {
            if obs(&ins[i].borrow().next) != obs(&mk(cats[i], times[i], PRIMES[i])) {
                j.eng.violation("comb:nary:input-modified", N, || case());
            }
        }
        if N == 2 {
            let g2s = guard(|| three(&Sum2::new(rf(&ins[0]), rf(&ins[1]))));
            let gns = guard(|| three(&SumStream::new(arr())));
            if !j.time_only && g2s != gns {
                j.eng.violation("comb:sum2-vs-sum:differ", 2, || format!("{}: Sum2 {:?} vs SumStream<2> {:?}", case(), g2s, gns));
            }
            let g2p = guard(|| three(&Product2::new(rf(&ins[0]), rf(&ins[1]))));
            let gnp = guard(|| three(&ProductStream::new(arr())));
            if !j.time_only && g2p != gnp {
                j.eng.violation("comb:product2-vs-product:differ", 2, || format!("{}: Product2 {:?} vs ProductStream<2> {:?}", case(), g2p, gnp));
            }
        }
    }
    if quantity {
        // Quantity payload: same unit for sums, distinct units for products
        let us = [MILLIMETER, SECOND, MILLIMETER_PER_SECOND, INVERSE_SECOND, MILLIMETER_SQUARED, SECOND_SQUARED, DIMENSIONLESS, INVERSE_MILLIMETER];
        let ins_s: Vec<_> = (0..N).map(|i| rc(Scr::<Quantity>::new(mk(cats[i], times[i], Quantity::new(PRIMES[i], MILLIMETER))))).collect();
        let ins_p: Vec<_> = (0..N).map(|i| rc(Scr::<Quantity>::new(mk(cats[i], times[i], Quantity::new(PRIMES[i], us[i]))))).collect();
        let arr_s = || -> [Reference<dyn Getter<Quantity, E>>; N] { core::array::from_fn(|i| dyn_getter(&ins_s[i])) };
        let arr_p = || -> [Reference<dyn Getter<Quantity, E>>; N] { core::array::from_fn(|i| dyn_getter(&ins_p[i])) };
        let exp_s = if let Some(k) = first_err(cats) {
            Exp::err(k)
        } else if present.is_empty() {
            Exp::none()
        } else {
            let v: f32 = present[1..].iter().fold(PRIMES[present[0]], |a, &i| a + PRIMES[i]);
            Exp::some(Quantity::new(v, MILLIMETER).bits(), vec![newest(&ptimes)])
        };
        let exp_p = if let Some(k) = first_err(cats) {
            Exp::err(k)
        } else if present.is_empty() {
            Exp::none()
        } else {
            let mut q = Quantity::new(PRIMES[present[0]], us[present[0]]);
            let (mut m, mut s) = unit_exps(q.unit);
            for &i in &present[1..] {
                q.value *= PRIMES[i];
                let (m2, s2) = unit_exps(us[i]);
                m += m2;
                s += s2;
            }
            let mut b = q.bits();
            b[3] = (m * 1000 + s) as u32;
            if !cfg!(feature = "dimcheck") {
                b[3] = 0;
            }
            Exp::some(b, vec![newest(&ptimes)])
        };
        let got = guard(|| three(&SumStream::new(arr_s())));
        j.check("sum-quantity", &case, got, &exp_s, N);
        let got = guard(|| three(&ProductStream::new(arr_p())));
        j.check("product-quantity", &case, got, &exp_p, N);
    }
}

fn nary_dispatch(n: usize, cats: &[In], times: &[i64], j: &mut Judge) {
    let q = n <= 3;
    match n {
        1 => nary::<1>(cats, times, j, q),
        2 => nary::<2>(cats, times, j, q),
        3 => nary::<3>(cats, times, j, q),
        4 => nary::<4>(cats, times, j, q),
        5 => nary::<5>(cats, times, j, q),
        6 => nary::<6>(cats, times, j, q),
        7 => nary::<7>(cats, times, j, q),
        8 => nary::<8>(cats, times, j, q),
        _ => unreachable!(),
    }
}

/// Assign times to the present inputs from a rank vector; bases cross zero.
fn times_from_ranks(cats: &[In], ranks: &[usize], base: i64, step: i64) -> Vec<i64> {
    let mut t = vec![base - 100; cats.len()];
    let mut k = 0;
    for i in 0..cats.len() {
        if cats[i] == In::P {
            t[i] = base + step * ranks[k] as i64;
            k += 1;
        }
    }
    t
}

pub fn run_nary(eng: &mut Eng, max_weak: usize, max_n: usize, time_only: bool) {
    for n in 1..=max_n {
        // five input categories (the third error value is Error::FromNone) up to arity 5, four beyond
        let ncat: u64 = if n <= 5 { 5 } else { 4 };
        let total = ipow(ncat, n);
        let mut cats = vec![In::N; n];
        let mut digits = vec![0usize; n];
        for idx in 0..total {
            decode(idx, ncat, &mut digits);
            for i in 0..n {
                cats[i] = CATS[digits[i]];
            }
            let np = cats.iter().filter(|c| **c == In::P).count();
            let orders: Vec<Vec<usize>> = if n <= max_weak {
                weak_orders(np)
            } else {
                // three timestamp levels for the large arities
                let mut v = Vec::new();
                let mut r = vec![0usize; np];
                for k in 0..ipow(3, np) {
                    decode(k, 3, &mut r);
                    v.push(r.clone());
                }
                v
            };
            for ranks in &orders {
                let levels = ranks.iter().max().map(|m| m + 1).unwrap_or(0);
                let mut time_sets: Vec<Vec<i64>> = [(-7i64, 5i64), (1_000_000_000_000, 1)].iter().map(|&(base, step)| times_from_ranks(&cats, ranks, base, step)).collect();
                // the same order realised with timestamps further apart than i64::MAX
                for map in extreme_level_maps(levels) {
                    let mut t = vec![-107i64; cats.len()];
                    let mut k = 0;
                    for i in 0..cats.len() {
                        if cats[i] == In::P {
                            t[i] = map[ranks[k]];
                            k += 1;
                        }
                    }
                    time_sets.push(t);
                }
                for times in time_sets {
                    eng.executions += 1;
                    eng.states += 1;
                    eng.transitions += 3;
                    if np >= 2 || (np >= 1 && np < n) {
                        eng.nontrivial += 1;
                    }
                    let mut j = Judge { eng, time_only };
                    nary_dispatch(n, &cats, &times, &mut j);
                    if n == 3 && idx % 17 == 0 {
                        eng.sample(|| format!("sum/product/newest-of arity 3: [{}] times {:?}", cat_name(&cats), times));
                    }
                }
            }
        }
        eng.max_depth = eng.max_depth.max(n as u64);
    }
}

// ------------------------------------------------------------------ binary / unary / selection
fn kleene_and(a: Option<bool>, b: Option<bool>) -> Option<bool> {
    match (a, b) {
        (Some(false), _) | (_, Some(false)) => Some(false),
        (Some(true), Some(true)) => Some(true),
        _ => None,
    }
}
fn kleene_or(a: Option<bool>, b: Option<bool>) -> Option<bool> {
    match (a, b) {
        (Some(true), _) | (_, Some(true)) => Some(true),
        (Some(false), Some(false)) => Some(false),
        _ => None,
    }
}

pub fn run_fixed(eng: &mut Eng, time_only: bool) {
    // the seven basic relations, then every ordered pair of the 15-value timestamp alphabet of C03
    // (equal, adjacent, negative, near-extreme, and pairs further apart than i64::MAX)
    let mut rel_times: Vec<(i64, i64)> = vec![(3, 8), (8, 3), (5, 5), (-4, -9), (-9, -4), (i64::MIN, i64::MIN + 1), (i64::MAX, i64::MAX - 1)];
    for &a in &crate::c03::TS {
        for &b in &crate::c03::TS {
            if !rel_times.contains(&(a, b)) {
                rel_times.push((a, b));
            }
        }
    }
    // ---- two-input arithmetic
    for &c0 in &CATS {
        for &c1 in &CATS {
            for &(t0, t1) in &rel_times {
                let cats = [c0, c1];
                let case = || format!("inputs [{}] times ({}, {})", cat_name(&cats), t0, t1);
                eng.executions += 1;
                eng.states += 1;
                eng.transitions += 3 * 6;
                if c0 == In::P && c1 == In::P {
                    eng.nontrivial += 1;
                }
                let a = rc(Scr::<f32>::new(mk(c0, t0, 12.0f32)));
                let b = rc(Scr::<f32>::new(mk(c1, t1, 3.0f32)));
                let mut j = Judge { eng, time_only };
                let tmax = t0.max(t1);
                // Sum2 / Product2
                let exp2 = |f: fn(f32, f32) -> f32| -> Exp {
                    match (c0, c1) {
                        (In::E(k), _) => Exp::err(k),
                        (In::N, In::E(k)) => Exp::err(k),
                        (In::N, In::N) => Exp::none(),
                        (In::N, In::P) => Exp::some(3.0f32.bits(), vec![t1]),
                        (In::P, In::E(k)) => Exp::err(k),
                        (In::P, In::N) => Exp::some(12.0f32.bits(), vec![t0]),
                        (In::P, In::P) => Exp::some(f(12.0, 3.0).bits(), vec![tmax]),
                    }
                };
                // the same combinators with a sibling instance (other, always present inputs) alive and read
                // in between: an instance must answer as if it were alone
                let a2 = rc(Scr::<f32>::new(Ok(Some(Datum::new(Time(t1.saturating_add(1)), 5.0f32)))));
                let b2 = rc(Scr::<f32>::new(Ok(Some(Datum::new(Time(t0.saturating_sub(1)), 7.0f32)))));
                macro_rules! beside {
                    ($ty:ident) => {
                        guard(|| {
                            let m = $ty::new(rf(&a), rf(&b));
                            let sib = $ty::new(rf(&a2), rf(&b2));
                            let _ = sib.get();
                            let o1 = obs(&m.get());
                            let _ = sib.get();
                            let o2 = obs(&m.get());
                            let _ = sib.get();
                            [o1, o2, obs(&m.get())]
                        })
                    };
                }
                j.check("sum2-beside-another", &case, beside!(Sum2), &exp2(|x, y| x + y), 2);
                j.check("product2-beside-another", &case, beside!(Product2), &exp2(|x, y| x * y), 2);
                j.check("sum2", &case, guard(|| three(&Sum2::new(rf(&a), rf(&b)))), &exp2(|x, y| x + y), 2);
                j.check("product2", &case, guard(|| three(&Product2::new(rf(&a), rf(&b)))), &exp2(|x, y| x * y), 2);
                // difference / quotient / exponent: first absent => absent, second absent => pass through
                let exp3 = |f: fn(f32, f32) -> f32| -> Exp {
                    match (c0, c1) {
                        (In::E(k), _) => Exp::err(k),
                        // first absent and second erroring: the error rule and the absent rule both apply
                        (In::N, In::E(k)) => Exp::err(k).or(Exp::none()),
                        (In::N, _) => Exp::none(),
                        (In::P, In::E(k)) => Exp::err(k),
                        (In::P, In::N) => Exp::some(12.0f32.bits(), vec![t0]),
                        (In::P, In::P) => Exp::some(f(12.0, 3.0).bits(), vec![tmax]),
                    }
                };
                // the same live object read again after ONE aspect of ONE input changed (only b's
                // timestamp; then only a's value): a stateless combinator is a function of what its
                // inputs return now
                if c0 == In::P && c1 == In::P {
                    let t1b = if t1 < i64::MAX - 1000 { t1 + 1000 } else { t1 - 1000 };
                    macro_rules! reread {
                        ($ty:ident, $name:expr, $f:expr) => {{
                            let f: fn(f32, f32) -> f32 = $f;
                            let g = guard(|| {
                                let m = $ty::new(rf(&a), rf(&b));
                                let o0 = obs(&m.get());
                                b.borrow_mut().next = mk(c1, t1b, 3.0f32);
                                let o1 = obs(&m.get());
                                a.borrow_mut().next = mk(c0, t0, 13.0f32);
                                let o2 = obs(&m.get());
                                a.borrow_mut().next = mk(c0, t0, 12.0f32);
                                b.borrow_mut().next = mk(c1, t1, 3.0f32);
                                let o3 = obs(&m.get());
                                [o0, o1, o2, o3]
                            });
                            a.borrow_mut().next = mk(c0, t0, 12.0f32);
                            b.borrow_mut().next = mk(c1, t1, 3.0f32);
                            match g {
                                Ok(o) => {
                                    j.check(concat!($name, "-reread"), &case, Ok([o[0], o[0], o[0]]), &Exp::some(f(12.0, 3.0).bits(), vec![tmax]), 2);
                                    j.check(concat!($name, "-reread"), &|| format!("{} then input 2 restamped {}", case(), t1b), Ok([o[1], o[1], o[1]]), &Exp::some(f(12.0, 3.0).bits(), vec![t0.max(t1b)]), 2);
                                    j.check(concat!($name, "-reread"), &|| format!("{} then input 2 restamped {} and input 1 now 13", case(), t1b), Ok([o[2], o[2], o[2]]), &Exp::some(f(13.0, 3.0).bits(), vec![t0.max(t1b)]), 2);
                                    j.check(concat!($name, "-reread"), &|| format!("{} after two changes were undone", case()), Ok([o[3], o[3], o[3]]), &Exp::some(f(12.0, 3.0).bits(), vec![tmax]), 2);
                                }
                                Err(m) => j.check(concat!($name, "-reread"), &case, Err(m), &Exp::none(), 2),
                            }
                        }};
                    }
                    reread!(Sum2, "sum2", |x, y| x + y);
                    reread!(Product2, "product2", |x, y| x * y);
                    reread!(DifferenceStream, "difference", |x, y| x - y);
                    reread!(QuotientStream, "quotient", |x, y| x / y);
                    reread!(ExponentStream, "exponent", |x, y| crate::refmodels::backend_powf(x, y));
                }
                j.check("difference-beside-another", &case, beside!(DifferenceStream), &exp3(|x, y| x - y), 2);
                j.check("quotient-beside-another", &case, beside!(QuotientStream), &exp3(|x, y| x / y), 2);
                j.check("exponent-beside-another", &case, beside!(ExponentStream), &exp3(|x, y| crate::refmodels::backend_powf(x, y)), 2);
                j.check("difference", &case, guard(|| three(&DifferenceStream::new(rf(&a), rf(&b)))), &exp3(|x, y| x - y), 2);
                j.check("quotient", &case, guard(|| three(&QuotientStream::new(rf(&a), rf(&b)))), &exp3(|x, y| x / y), 2);
                j.check("exponent", &case, guard(|| three(&ExponentStream::new(rf(&a), rf(&b)))), &exp3(|x, y| crate::refmodels::backend_powf(x, y)), 2);
                // Quantity difference / quotient
                let qa = rc(Scr::<Quantity>::new(mk(c0, t0, Quantity::new(12.0, MILLIMETER))));
                let qb = rc(Scr::<Quantity>::new(mk(c1, t1, Quantity::new(3.0, MILLIMETER))));
                let expq = |v: f32, u: Unit| -> Exp {
                    match (c0, c1) {
                        (In::E(k), _) => Exp::err(k),
                        (In::N, In::E(k)) => Exp::err(k).or(Exp::none()),
                        (In::N, _) => Exp::none(),
                        (In::P, In::E(k)) => Exp::err(k),
                        (In::P, In::N) => Exp::some(Quantity::new(12.0, MILLIMETER).bits(), vec![t0]),
                        (In::P, In::P) => Exp::some(Quantity::new(v, u).bits(), vec![tmax]),
                    }
                };
                j.check("difference-quantity", &case, guard(|| three(&DifferenceStream::new(rf(&qa), rf(&qb)))), &expq(9.0, MILLIMETER), 2);
                j.check("quotient-quantity", &case, guard(|| three(&QuotientStream::new(rf(&qa), rf(&qb)))), &expq(4.0, DIMENSIONLESS), 2);
            }
        }
    }
    // ---- logic: inputs {true,false,N,E1,E2}
    #[derive(Clone, Copy, PartialEq, Debug)]
    enum B {
        T,
        F,
        N,
        E(u8),
    }
    let bs = [B::T, B::F, B::N, B::E(1), B::E(2), B::E(0)];
    let mkb = |b: B, t: i64| -> Output<bool, E> {
        match b {
            B::T => Ok(Some(Datum::new(Time(t), true))),
            B::F => Ok(Some(Datum::new(Time(t), false))),
            B::N => Ok(None),
            B::E(k) => Err(err_of(k)),
        }
    };
    let val = |b: B| match b {
        B::T => Some(true),
        B::F => Some(false),
        _ => None,
    };
    for &b0 in &bs {
        for &b1 in &bs {
            for &(t0, t1) in &rel_times {
                let case = || format!("inputs [{:?},{:?}] times ({}, {})", b0, b1, t0, t1);
                eng.executions += 1;
                eng.states += 1;
                eng.transitions += 3 * 5;
                if val(b0).is_some() && val(b1).is_some() {
                    eng.nontrivial += 1;
                }
                let a = rc(Scr::<bool>::new(mkb(b0, t0)));
                let b = rc(Scr::<bool>::new(mkb(b1, t1)));
                let mut j = Judge { eng, time_only };
                let explogic = |f: fn(Option<bool>, Option<bool>) -> Option<bool>, decisive: bool| -> Exp {
                    if let B::E(k) = b0 {
                        return Exp::err(k);
                    }
                    if let B::E(k) = b1 {
                        return Exp::err(k);
                    }
                    match f(val(b0), val(b1)) {
                        None => Exp::none(),
                        Some(r) => {
                            // acceptable timestamps: newest of all present inputs, or newest of the deciding ones
                            let mut ts = Vec::new();
                            let pres: Vec<i64> = [(b0, t0), (b1, t1)].iter().filter(|(x, _)| val(*x).is_some()).map(|(_, t)| *t).collect();
                            ts.push(newest(&pres));
                            let dec: Vec<i64> = [(b0, t0), (b1, t1)].iter().filter(|(x, _)| val(*x) == Some(decisive)).map(|(_, t)| *t).collect();
                            if r == decisive && !dec.is_empty() {
                                ts.push(newest(&dec));
                            }
                            Exp::some(r.bits(), ts)
                        }
                    }
                };
                let g_and = guard(|| three(&AndStream::new(rf(&a), rf(&b))));
                let g_or = guard(|| three(&OrStream::new(rf(&a), rf(&b))));
                j.check("and", &case, g_and.clone(), &explogic(kleene_and, false), 2);
                j.check("or", &case, g_or.clone(), &explogic(kleene_or, true), 2);
                // De Morgan on the real streams (category and value; timestamps are judged above)
                let g_nand = guard(|| {
                    let inner = rc(AndStream::new(rf(&a), rf(&b)));
                    three(&NotStream::new(rf(&inner)))
                });
                let g_or_nots = guard(|| {
                    let na = rc(NotStream::new(rf(&a)));
                    let nb = rc(NotStream::new(rf(&b)));
                    three(&OrStream::new(rf(&na), rf(&nb)))
                });
                let g_nor = guard(|| {
                    let inner = rc(OrStream::new(rf(&a), rf(&b)));
                    three(&NotStream::new(rf(&inner)))
                });
                let g_and_nots = guard(|| {
                    let na = rc(NotStream::new(rf(&a)));
                    let nb = rc(NotStream::new(rf(&b)));
                    three(&AndStream::new(rf(&na), rf(&nb)))
                });
                let strip = |g: &Result<[Obs; 3], String>| g.clone().map(|x| (x[0].tag, x[0].bits)).ok();
                if !time_only {
                    if strip(&g_nand) != strip(&g_or_nots) {
                        j.eng.violation("comb:de-morgan:not-and", 2, || format!("{}: not(and) = {:?} but or(not,not) = {:?}", case(), g_nand, g_or_nots));
                    }
                    if strip(&g_nor) != strip(&g_and_nots) {
                        j.eng.violation("comb:de-morgan:not-or", 2, || format!("{}: not(or) = {:?} but and(not,not) = {:?}", case(), g_nor, g_and_nots));
                    }
                }
            }
            // not
            let t0 = -3;
            let a = rc(Scr::<bool>::new(mkb(b0, t0)));
            let case = || format!("input {:?} time {}", b0, t0);
            let exp = match b0 {
                B::E(k) => Exp::err(k),
                B::N => Exp::none(),
                x => Exp::some((!val(x).unwrap()).bits(), vec![t0]),
            };
            let mut j = Judge { eng, time_only };
            j.check("not", &case, guard(|| three(&NotStream::new(rf(&a)))), &exp, 1);
        }
    }
    // ---- if / if-else: condition {T,F,N,E1} x input(s) {P,N,E2,E3}
    let conds = [B::T, B::F, B::N, B::E(1), B::E(0)];
    let ins = [In::P, In::N, In::E(2), In::E(3), In::E(0)];
    for &c in &conds {
        for &i0 in &ins {
            for &i1 in &ins {
                let case = || format!("condition {:?} true-input {:?} false-input {:?}", c, i0, i1);
                eng.executions += 1;
                eng.states += 1;
                eng.transitions += 6;
                eng.nontrivial += 1;
                let cg = rc(Scr::<bool>::new(mkb(c, 50)));
                let a = rc(Scr::<f32>::new(mk(i0, 7, 21.0f32)));
                let b = rc(Scr::<f32>::new(mk(i1, -7, 34.0f32)));
                let pass = |i: In, t: i64, v: f32| -> Exp {
                    match i {
                        In::E(k) => Exp::err(k),
                        In::N => Exp::none(),
                        In::P => Exp::some(v.bits(), vec![t]),
                    }
                };
                let exp_if = match c {
                    B::E(k) => Exp::err(k),
                    B::T => pass(i0, 7, 21.0),
                    _ => Exp::none(),
                };
                let exp_ifelse = match c {
                    B::E(k) => Exp::err(k),
                    B::N => Exp::none(),
                    B::T => pass(i0, 7, 21.0),
                    B::F => pass(i1, -7, 34.0),
                };
                let mut j = Judge { eng, time_only };
                j.check("if", &case, guard(|| three(&IfStream::new(rf(&cg), rf(&a)))), &exp_if, 2);
                j.check("if-else", &case, guard(|| three(&IfElseStream::new(rf(&cg), rf(&a), rf(&b)))), &exp_ifelse, 3);
            }
        }
    }
    // ---- expirer, none-to-error, none-to-value, constant getter, none getter
    let tgs: [TimeOutput<E>; 4] = [Ok(Time(1000)), Ok(Time(-1000)), Err(E3), Err(Error::FromNone)];
    for &c in &CATS {
        for tg in &tgs {
            for age_rel in [-1i64, 0, 1] {
                for limit in [0i64, 10, 1_000_000_000] {
                    let now = match tg {
                        Ok(t) => t.0,
                        Err(_) => 0,
                    };
                    let tdata = now - (limit + age_rel); // age = limit + age_rel
                    let case = || format!("input {:?} at time {} time-getter {:?} limit {}", c, tdata, tg, limit);
                    eng.executions += 1;
                    eng.states += 1;
                    eng.transitions += 9;
                    if c == In::P && tg.is_ok() {
                        eng.nontrivial += 1;
                    }
                    let a = rc(Scr::<f32>::new(mk(c, tdata, 21.0f32)));
                    let t = rc(ScrTime::new(*tg));
                    let exp = match (c, tg) {
                        (In::E(k), _) => Exp::err(k),
                        (In::N, Err(te)) => Exp::none().or(Exp::one(Obs::err(te))),
                        (In::N, _) => Exp::none(),
                        (In::P, Err(te)) => Exp::one(Obs::err(te)),
                        (In::P, Ok(_)) => {
                            if age_rel > 0 {
                                Exp::none()
                            } else {
                                Exp::some(21.0f32.bits(), vec![tdata])
                            }
                        }
                    };
                    let mut j = Judge { eng, time_only };
                    j.check("expirer", &case, guard(|| three(&Expirer::new(rf(&a), rf(&t), Time(limit)))), &exp, 2);
                    // a second expirer with another limit alive on the same inputs and read in between:
                    // the one under test must answer as if it were alone
                    for other in [2 * limit + 5, (limit + age_rel - 1).max(0)] {
                        let g = guard(|| {
                            let e1 = Expirer::new(rf(&a), rf(&t), Time(limit));
                            let e2 = Expirer::new(rf(&a), rf(&t), Time(other));
                            let _ = e2.get();
                            let o1 = obs(&e1.get());
                            let _ = e2.get();
                            let o2 = obs(&e1.get());
                            let _ = e2.get();
                            [o1, o2, obs(&e1.get())]
                        });
                        j.check("expirer-beside-another", &case, g, &exp, 2);
                    }
                    if age_rel == 0 && limit == 10 {
                        let exp_nte = match c {
                            In::E(k) => Exp::err(k),
                            In::N => Exp::one(Obs::err(&Error::FromNone)),
                            In::P => Exp::some(21.0f32.bits(), vec![tdata]),
                        };
                        j.check("none-to-error", &case, guard(|| three(&NoneToError::new(rf(&a)))), &exp_nte, 1);
                        let exp_ntv = match (c, tg) {
                            (In::E(k), _) => Exp::err(k),
                            (In::P, _) => Exp::some(21.0f32.bits(), vec![tdata]),
                            (In::N, Ok(t)) => Exp::some(55.0f32.bits(), vec![t.0]),
                            (In::N, Err(te)) => Exp::one(Obs::err(te)),
                        };
                        j.check("none-to-value", &case, guard(|| three(&NoneToValue::new(rf(&a), rf(&t), 55.0f32))), &exp_ntv, 2);
                        let exp_const = match tg {
                            Ok(t) => Exp::some(8.5f32.bits(), vec![t.0]),
                            Err(te) => Exp::one(Obs::err(te)),
                        };
                        j.check("constant-getter", &case, guard(|| three(&ConstantGetter::new(rf(&t), 8.5f32))), &exp_const, 1);
                        let ng = guard(|| {
                            let g = NoneGetter::new();
                            let o: [Obs; 3] = [
                                obs(&<NoneGetter as Getter<f32, E>>::get(&g)),
                                obs(&<NoneGetter as Getter<f32, E>>::get(&g)),
                                obs(&<NoneGetter as Getter<f32, E>>::get(&g)),
                            ];
                            o
                        });
                        j.check("none-getter", &case, ng, &Exp::none(), 1);
                    }
                }
            }
        }
    }
    eng.sample(|| "and/or/not: inputs [T,E(1)] times (3, 8); if/if-else: condition F true-input P false-input E(3); expirer: input P age = limit+1".to_string());
}

/// One getter object feeding several inputs of one combinator (aliasing): the combinator must treat
/// every slot as an input in its own right (x + x is 2x, not x).
pub fn aliased_inputs(eng: &mut Eng) {
    for cat in [In::P, In::N, In::E(1), In::E(0)] {
        macro_rules! nary_alias {
            ($n:expr) => {{
                const N: usize = $n;
                let g = rc(Scr::<f32>::new(mk(cat, 5, 3.0f32)));
                let h = rc(Scr::<f32>::new(mk(In::P, 9, 2.0f32)));
                // all slots the same object; and the same object around a different one
                for pattern in 0..2usize {
                    if pattern == 1 && N < 3 {
                        continue;
                    }
                    let arr = || -> [Reference<dyn Getter<f32, E>>; N] { core::array::from_fn(|i| if pattern == 1 && i == 1 { dyn_getter(&h) } else { dyn_getter(&g) }) };
                    let copies = if pattern == 1 { N - 1 } else { N };
                    let case = || format!("arity {}: the same getter ({:?}) in {} slots{}", N, cat, copies, if pattern == 1 { " with another getter (2.0 at time 9) in slot 1" } else { "" });
                    let fold = |f: fn(f32, f32) -> f32| -> Exp {
                        match cat {
                            In::E(k) => Exp::err(k),
                            In::N => {
                                if pattern == 1 {
                                    Exp::some(2.0f32.bits(), vec![9])
                                } else {
                                    Exp::none()
                                }
                            }
                            In::P => {
                                // input order: g, (h,) g, ...
                                let mut v = 3.0f32;
                                for i in 1..N {
                                    v = f(v, if pattern == 1 && i == 1 { 2.0 } else { 3.0 });
                                }
                                Exp::some(v.bits(), vec![if pattern == 1 { 9 } else { 5 }])
                            }
                        }
                    };
                    eng.executions += 3;
                    eng.states += 1;
                    eng.transitions += 9;
                    eng.nontrivial += 1;
                    let mut j = Judge { eng: &mut *eng, time_only: false };
                    j.check("sum-aliased-inputs", &case, guard(|| three(&SumStream::new(arr()))), &fold(|a, b| a + b), N);
                    j.check("product-aliased-inputs", &case, guard(|| three(&ProductStream::new(arr()))), &fold(|a, b| a * b), N);
                    let exp_latest = match cat {
                        In::P => {
                            if pattern == 1 {
                                Exp::some(2.0f32.bits(), vec![9])
                            } else {
                                Exp::some(3.0f32.bits(), vec![5])
                            }
                        }
                        _ => {
                            if pattern == 1 {
                                Exp::some(2.0f32.bits(), vec![9])
                            } else {
                                Exp::none()
                            }
                        }
                    };
                    j.check("newest-of-aliased-inputs", &case, guard(|| three(&Latest::new(arr()))), &exp_latest, N);
                }
            }};
        }
        nary_alias!(2);
        nary_alias!(3);
        nary_alias!(4);
        nary_alias!(5);
        // two-input forms with both inputs the same object
        let g = rc(Scr::<f32>::new(mk(cat, 5, 3.0f32)));
        let case = || format!("both inputs the same getter ({:?})", cat);
        let two = |f: fn(f32, f32) -> f32| -> Exp {
            match cat {
                In::E(k) => Exp::err(k),
                In::N => Exp::none(),
                In::P => Exp::some(f(3.0, 3.0).bits(), vec![5]),
            }
        };
        eng.executions += 5;
        eng.transitions += 15;
        let mut j = Judge { eng: &mut *eng, time_only: false };
        j.check("sum2-aliased-inputs", &case, guard(|| three(&Sum2::new(rf(&g), rf(&g)))), &two(|a, b| a + b), 2);
        j.check("product2-aliased-inputs", &case, guard(|| three(&Product2::new(rf(&g), rf(&g)))), &two(|a, b| a * b), 2);
        j.check("difference-aliased-inputs", &case, guard(|| three(&DifferenceStream::new(rf(&g), rf(&g)))), &two(|a, b| a - b), 2);
        j.check("quotient-aliased-inputs", &case, guard(|| three(&QuotientStream::new(rf(&g), rf(&g)))), &two(|a, b| a / b), 2);
        j.check("exponent-aliased-inputs", &case, guard(|| three(&ExponentStream::new(rf(&g), rf(&g)))), &two(|a, b| crate::refmodels::backend_powf(a, b)), 2);
    }
    eng.sample(|| "SumStream over [x, x, x] with x = 3 at time 5: 9 at time 5".to_string());
}

/// Present values are combined with exactly the corresponding operator: the two-input arithmetic
/// combinators and the 3-ary sum/product over a grid of special values (signed zeros, units,
/// halves, non-dyadic, tiny, huge, 2^24), compared bit for bit with the raw operator (exponent:
/// with the build's own powf called directly). A special case in a shim or helper (0^0, x/1,
/// x*0, x+-0) that the two fixed values of the category engine never meet shows here.
fn value_grid(e: &mut Eng) {
    const G: [f32; 16] = [0.0, -0.0, 1.0, -1.0, 2.0, 0.5, 3.0, -2.5, 1e-3, 100.0, f32::MIN_POSITIVE, 1e30, -1e30, 16777216.0, 0.1, 7.0];
    let same = |a: f32, b: f32| a.to_bits() == b.to_bits() || (a.is_nan() && b.is_nan());
    // (category of input 1, category of input 2): the special value of one input must not change what
    // the absent / error rules say about the other
    const CC: [(In, In); 9] = [(In::P, In::P), (In::P, In::N), (In::N, In::P), (In::N, In::N), (In::P, In::E(1)), (In::E(1), In::P), (In::N, In::E(1)), (In::E(1), In::N), (In::E(1), In::E(2))];
    #[derive(Clone, Copy, PartialEq, Debug)]
    enum W {
        None,
        Err(u8),
        ErrOrNone(u8),
        Val(i64, f32),
    }
    for &x in &G {
        for &y in &G {
            for &(c0, c1) in &CC {
                let a = rc(Scr::<f32>::new(mk(c0, 3, x)));
                let b = rc(Scr::<f32>::new(mk(c1, 8, y)));
                // the build's own power function on these values (None: the back end itself panics here)
                let pw = crate::refmodels::backend_powf_checked(x, y);
                let r = guard(|| {
                    [
                        Sum2::new(rf(&a), rf(&b)).get(),
                        Product2::new(rf(&a), rf(&b)).get(),
                        DifferenceStream::new(rf(&a), rf(&b)).get(),
                        QuotientStream::new(rf(&a), rf(&b)).get(),
                        if pw.is_some() || (c0, c1) != (In::P, In::P) { ExponentStream::new(rf(&a), rf(&b)).get() } else { Ok(None) },
                        SumStream::new([dyn_getter(&a), dyn_getter(&b), dyn_getter(&a)]).get(),
                        ProductStream::new([dyn_getter(&a), dyn_getter(&b), dyn_getter(&a)]).get(),
                    ]
                });
                let ops: [f32; 7] = [x + y, x * y, x - y, x / y, pw.unwrap_or(0.0), x + y + x, x * y * x];
                let names = ["sum2", "product2", "difference", "quotient", "exponent", "sum3", "product3"];
                let want = |k: usize| -> W {
                    let skipping = k <= 1 || k >= 5; // sums and products skip absent inputs
                    match (c0, c1) {
                        (In::E(i), _) => W::Err(i),
                        (In::N, In::E(i)) => if skipping { W::Err(i) } else { W::ErrOrNone(i) },
                        (In::P, In::E(i)) => W::Err(i),
                        (In::N, In::N) => W::None,
                        (In::N, In::P) => if skipping { W::Val(8, y) } else { W::None },
                        (In::P, In::N) => if k >= 5 { W::Val(3, if k == 5 { x + x } else { x * x }) } else { W::Val(3, x) },
                        (In::P, In::P) => W::Val(8, ops[k]),
                    }
                };
                e.executions += 7;
                e.states += 7;
                e.transitions += 7;
                e.checks += 7;
                e.nontrivial += 7;
                match r {
                    Err(m) => e.violation("comb:value-grid:panic", 1, || format!("inputs {:?} ({}) and {:?} ({}): a combinator panicked: {}", x, cat_name(&[c0]), y, cat_name(&[c1]), m)),
                    Ok(got) => {
                        for k in 0..7 {
                            if k == 4 && pw.is_none() && (c0, c1) == (In::P, In::P) {
                                continue; // not judged: the back end panics on these values
                            }
                            let w = want(k);
                            let ok = match (&got[k], w) {
                                (Ok(Some(d)), W::Val(t, v)) => d.time == Time(t) && same(d.value, v),
                                (Ok(None), W::None) | (Ok(None), W::ErrOrNone(_)) => true,
                                (Err(er), W::Err(i)) | (Err(er), W::ErrOrNone(i)) => *er == err_of(i),
                                _ => false,
                            };
                            e.outcome(h64(&(k, format!("{:?}", w))));
                            if !ok {
                                let cls = if (c0, c1) == (In::P, In::P) { "value" } else { "value-grid-category" };
                                e.violation(&format!("comb:{}:{}", names[k], cls), 1, || format!("{} of input 1 = {:?} at t=3 made {} and input 2 = {:?} at t=8 made {} gives {:?}, expected {:?}", names[k], x, cat_name(&[c0]), y, cat_name(&[c1]), got[k], w));
                            }
                        }
                    }
                }
            }
        }
    }
}

pub fn run(ctx: &Ctx) -> Vec<Eng> {
    let (mw, mn) = if ctx.thorough { (6, 8) } else { (5, 5) };
    let mut e1 = Eng::new(
        "c02-nary",
        "n-ary sum, product (f32 and Quantity payloads) and newest-of: every assignment of {P,N,E1,E2} to the inputs x every weak order of the present inputs' timestamps (two time bases, one crossing zero); reference = rustdoc contract (first error wins, absent skipped, fold in input order, newest time); get() called three times; Sum2/Product2 compared with the 2-ary streams; non-trivial = at least two present inputs or a mix of present and non-present",
        &format!("arities 1..={} (all weak orders up to arity {}, three timestamp levels above)", mn, mw),
    );
    run_nary(&mut e1, mw, mn, false);
    let mut e2 = Eng::new(
        "c02-fixed-arity",
        "Sum2, Product2, difference, quotient, exponent (f32 and Quantity), and, or, not, De Morgan pairs, if, if-else, expirer (age <,=,> limit), none-to-error, none-to-value, constant getter, none getter: every input category assignment x seven timestamp relations incl. i64 extremes; non-trivial = all inputs present (arithmetic/logic) or every case (selection)",
        "all category assignments x 7 timestamp pairs",
    );
    run_fixed(&mut e2, false);
    aliased_inputs(&mut e2);
    e2.bounds.push_str("; plus aliasing: one getter object (present / absent / erroring) in every slot of the n-ary streams (arities 2..5), the same around a different getter, and as both inputs of the two-input arithmetic forms");
    let mut e3 = Eng::new(
        "c02-value-grid",
        "Sum2, Product2, difference, quotient, exponent and the 3-ary sum and product, each input present / absent / erroring (9 category pairs), over every ordered pair of a 16-value grid of special values (signed zeros, +-1, 2, 0.5, 3, -2.5, 1e-3, 100, the smallest normal, +-1e30, 2^24, 0.1, 7): value bit-identical to the raw operator on the values in input order (exponent: to the build's own powf called directly; NaN matches NaN), time = the newer input's; with an absent or erroring input the documented absent / error rule, whatever special value the other input holds",
        "16 x 16 value pairs x 9 category pairs x 7 combinators",
    );
    value_grid(&mut e3);
    vec![e1, e2, e3]
}

/// One n-ary case (sum, product, newest-of; f32 and Quantity payloads) judged against the
/// reference; used by C16 with poisoned scratch arrays.
pub fn nary_case(n: usize, cats: &[In], times: &[i64], eng: &mut Eng) {
    let mut j = Judge { eng, time_only: false };
    nary_dispatch(n, cats, times, &mut j);
}
