//! C15 — settable bookkeeping, following and history adapters map values and time exactly.
use crate::env::*;
use crate::mc::*;
use crate::Ctx;
use rrtk::*;
use std::cell::RefCell;
use std::rc::Rc;

// ---------------------------------------------------------------- settable + following
#[derive(Clone, Copy, Debug, PartialEq)]
enum Op {
    Set(i32),
    ToggleAccept,
    Follow(u8),
    Stop,
    Update,
    G1(u8), // 0 = P(7), 1 = N, 2 = E1
}
const OPS: [Op; 10] = [Op::Set(1), Op::Set(2), Op::ToggleAccept, Op::Follow(1), Op::Follow(2), Op::Stop, Op::Update, Op::G1(0), Op::G1(1), Op::G1(2)];
/// what getter g1 answers after the `pos`-th operation set it to kind k; the error value depends
/// on the position (Other(1) at even positions, the crate's own FromNone at odd ones)
fn g1_out(k: u8, pos: usize) -> Output<i32, E> {
    match k {
        0 => Ok(Some(Datum::new(Time(5), 7))),
        1 => Ok(None),
        _ => Err(err_at(pos)),
    }
}
fn ops_show(seq: &[usize]) -> String {
    seq.iter().map(|&i| format!("{:?}", OPS[i])).collect::<Vec<_>>().join(",")
}

fn do_set(constant: bool, accept: bool, v: i32, last: &mut Option<i32>, log: &mut Vec<i32>, value: &mut i32) -> u32 {
    if constant {
        *value = v;
        *last = Some(v);
        0
    } else if accept {
        log.push(v);
        *last = Some(v);
        0
    } else {
        2 + 3 // rejected with E3; last request unchanged
    }
}

thread_local! {
    /// what the ConstantGetter's own time getter answers in `settable_history`: 0 = Ok(40),
    /// 1 = Err(Other(9)), 2 = Err(FromNone). The settable bookkeeping (set, follow, update results,
    /// last request) does not depend on it; get() is only judged under 0.
    static CG_CLOCK: std::cell::Cell<u8> = std::cell::Cell::new(0);
}
fn settable_history(seq: &[usize], constant: bool, e: &mut Eng) -> u64 {
    let n = seq.len();
    let cg_clock = CG_CLOCK.with(|c| c.get());
    // model
    let mut last: Option<i32> = None;
    let mut accept = true;
    let mut following: u8 = 0;
    let mut g1: u8 = 0;
    let mut g1_pos: usize = 0;
    let mut log: Vec<i32> = Vec::new();
    let mut value: i32 = 100; // ConstantGetter's current value
    let mut nontrivial = false;
    let name = if constant { "constant-getter" } else { "recording" };
    let r = guard(|| {
        let g1r = rc(Scr::<i32>::new(g1_out(0, 0)));
        let g2r = rc(Scr::<i32>::new(Ok(Some(Datum::new(Time(6), 9)))));
        let clock = rc(ScrTime::new(match cg_clock {
            0 => Ok(Time(40)),
            1 => Err(Error::Other(9)),
            _ => Err(Error::FromNone),
        }));
        let mut rec = RecSet::<i32>::new();
        let mut cg = ConstantGetter::new(rf(&clock), 100i32);
        let mut trace: Vec<(u32, Option<i32>, Vec<i32>, Obs)> = Vec::new();
        for (pos, &i) in seq.iter().enumerate() {
            let op = OPS[i];
            let mut res = 0u32;
            match op {
                Op::Set(v) => {
                    res = obs_unit(&if constant { cg.set(v) } else { rec.set(v) });
                }
                Op::ToggleAccept => rec.accept = !rec.accept,
                Op::Follow(w) => {
                    let g = if w == 1 { dyn_getter(&g1r) } else { dyn_getter(&g2r) };
                    if constant {
                        cg.follow(g)
                    } else {
                        rec.follow(g)
                    }
                }
                Op::Stop => {
                    if constant {
                        cg.stop_following()
                    } else {
                        rec.stop_following()
                    }
                }
                Op::Update => res = obs_unit(&if constant { cg.update() } else { rec.update() }),
                Op::G1(k) => g1r.borrow_mut().next = g1_out(k, pos),
            }
            let lr = if constant { cg.get_last_request() } else { rec.get_last_request() };
            let got = if constant { obs(&cg.get().map(|o| o.map(|d| Datum::new(d.time, d.value as f32)))) } else { Obs::NONE };
            trace.push((res, lr, rec.log.clone(), got));
        }
        trace
    });
    let trace = match r {
        Ok(t) => t,
        Err(m) => {
            e.violation(&format!("settable:{}:panic", name), n, || format!("ops [{}] panicked: {}", ops_show(seq), m));
            return n as u64;
        }
    };
    e.outcome(h64(&(constant, &trace)));
    for (k, &i) in seq.iter().enumerate() {
        e.checks += 1;
        let mut exp_res = 0u32;
        match OPS[i] {
            Op::Set(v) => exp_res = do_set(constant, accept, v, &mut last, &mut log, &mut value),
            Op::ToggleAccept => {
                if !constant {
                    accept = !accept
                }
            }
            Op::Follow(w) => following = w,
            Op::Stop => following = 0,
            Op::G1(x) => {
                g1 = x;
                g1_pos = k;
            }
            Op::Update => {
                let src: Option<Output<i32, E>> = match following {
                    0 => None,
                    1 => Some(g1_out(g1, g1_pos)),
                    _ => Some(Ok(Some(Datum::new(Time(6), 9)))),
                };
                match src {
                    None => {}
                    Some(Err(er)) => exp_res = obs_unit(&Err(er)),
                    Some(Ok(None)) => {}
                    Some(Ok(Some(d))) => {
                        nontrivial = true;
                        exp_res = do_set(constant, accept, d.value, &mut last, &mut log, &mut value);
                    }
                }
            }
        }
        let (res, lr, rlog, got) = &trace[k];
        let exp_get = Obs { tag: 1, time: 40, bits: [(value as f32).to_bits(), 0, 0, 0] };
        let ok = *res == exp_res && *lr == last && (constant || *rlog == log) && (!constant || cg_clock != 0 || *got == exp_get);
        if !ok {
            let cls = if *res != exp_res {
                "result"
            } else if *lr != last {
                "last-request"
            } else if !constant {
                "forwarded-values"
            } else {
                "value"
            };
            e.violation(&format!("settable:{}:{}", name, cls), k + 1, || {
                format!(
                    "ops [{}]{}: after op {} result code {} last_request {:?} inner log {:?} get {} but the bookkeeping model says result {} last_request {:?} log {:?} value {}",
                    ops_show(&seq[..=k]), ["", " (the constant getter's own time getter returns Err(Other(9)))", " (the constant getter's own time getter returns Err(FromNone))"][cg_clock as usize], k, res, lr, rlog, got.show(), exp_res, last, log, value
                )
            });
            break;
        }
    }
    if nontrivial {
        e.nontrivial += 1;
    }
    n as u64
}


// ---------------------------------------------------------------- a Terminal as a settable that follows two getters
#[derive(Clone, Copy, Debug, PartialEq)]
enum TOp {
    FollowS,
    FollowC,
    StopS,
    StopC,
    Update,
    GS(u8), // state getter now returns 0 = P, 1 = P', 2 = N, 3 = E1
    GC(u8),
    SetS,
    SetC,
}
const TOPS: [TOp; 15] = [TOp::FollowS, TOp::FollowC, TOp::StopS, TOp::StopC, TOp::Update, TOp::GS(0), TOp::GS(1), TOp::GS(2), TOp::GS(3), TOp::GC(0), TOp::GC(1), TOp::GC(2), TOp::GC(3), TOp::SetS, TOp::SetC];
fn tops_show(seq: &[usize]) -> String {
    seq.iter().map(|&i| format!("{:?}", TOPS[i])).collect::<Vec<_>>().join(",")
}
fn gs_out(k: u8) -> Output<Datum<State>, E> {
    match k {
        0 => Ok(Some(Datum::new(Time(50), Datum::new(Time(7), State::new_raw(1.0, 2.0, 3.0))))),
        1 => Ok(Some(Datum::new(Time(51), Datum::new(Time(-9), State::new_raw(-4.0, 0.5, 0.0))))),
        2 => Ok(None),
        _ => Err(E1),
    }
}
fn gc_out(k: u8) -> Output<Datum<Command>, E> {
    match k {
        0 => Ok(Some(Datum::new(Time(60), Datum::new(Time(8), Command::Velocity(2.5))))),
        1 => Ok(Some(Datum::new(Time(61), Datum::new(Time(-8), Command::Position(-1.0))))),
        2 => Ok(None),
        _ => Err(Error::FromNone), // the crate's own error variant
    }
}

fn terminal_history(seq: &[usize], e: &mut Eng) -> u64 {
    let n = seq.len();
    let direct_s = Datum::new(Time(3), State::new_raw(9.0, 9.0, 9.0));
    let direct_c = Datum::new(Time(4), Command::Acceleration(9.0));
    let r = guard(|| {
        let gs = rc(Scr::<Datum<State>>::new(gs_out(0)));
        let gc = rc(Scr::<Datum<Command>>::new(gc_out(0)));
        let t = Terminal::<E>::new();
        let mut trace = Vec::new();
        for &i in seq {
            let mut res = 0u32;
            match TOPS[i] {
                TOp::FollowS => <Terminal<E> as Settable<Datum<State>, E>>::follow(&mut t.borrow_mut(), dyn_getter(&gs)),
                TOp::FollowC => <Terminal<E> as Settable<Datum<Command>, E>>::follow(&mut t.borrow_mut(), dyn_getter(&gc)),
                TOp::StopS => <Terminal<E> as Settable<Datum<State>, E>>::stop_following(&mut t.borrow_mut()),
                TOp::StopC => <Terminal<E> as Settable<Datum<Command>, E>>::stop_following(&mut t.borrow_mut()),
                TOp::Update => res = obs_unit(&t.borrow_mut().update()),
                TOp::GS(k) => gs.borrow_mut().next = gs_out(k),
                TOp::GC(k) => gc.borrow_mut().next = gc_out(k),
                TOp::SetS => res = obs_unit(&t.borrow_mut().set(direct_s)),
                TOp::SetC => res = obs_unit(&t.borrow_mut().set(direct_c)),
            }
            let ls = <Terminal<E> as Settable<Datum<State>, E>>::get_last_request(&t.borrow());
            let lc = <Terminal<E> as Settable<Datum<Command>, E>>::get_last_request(&t.borrow());
            trace.push((res, ls, lc));
        }
        trace
    });
    let trace = match r {
        Ok(t) => t,
        Err(m) => {
            e.violation("settable:terminal:panic", n, || format!("ops [{}] panicked: {}", tops_show(seq), m));
            return n as u64;
        }
    };
    e.outcome(h64(&format!("{:?}", trace)));
    let (mut fs, mut fc) = (false, false);
    let (mut ks, mut kc) = (0u8, 0u8);
    let mut ls: Option<Datum<State>> = None;
    let mut lc: Option<Datum<Command>> = None;
    let mut nontrivial = false;
    for (k, &i) in seq.iter().enumerate() {
        e.checks += 1;
        let mut exp_res: Vec<u32> = vec![0];
        let mut alt: Option<(Option<Datum<State>>, Option<Datum<Command>>)> = None;
        match TOPS[i] {
            TOp::FollowS => fs = true,
            TOp::FollowC => fc = true,
            TOp::StopS => fs = false,
            TOp::StopC => fc = false,
            TOp::GS(x) => ks = x,
            TOp::GC(x) => kc = x,
            TOp::SetS => ls = Some(direct_s),
            TOp::SetC => lc = Some(direct_c),
            TOp::Update => {
                let so = if fs { Some(gs_out(ks)) } else { None };
                let co = if fc { Some(gc_out(kc)) } else { None };
                let s_err = matches!(so, Some(Err(_)));
                let c_err = matches!(co, Some(Err(_)));
                let s_val = match so { Some(Ok(Some(d))) => Some(d.value), _ => None };
                let c_val = match co { Some(Ok(Some(d))) => Some(d.value), _ => None };
                if s_val.is_some() || c_val.is_some() {
                    nontrivial = true;
                }
                if !s_err && !c_err {
                    if let Some(v) = s_val { ls = Some(v); }
                    if let Some(v) = c_val { lc = Some(v); }
                } else {
                    // an erroring followed getter: its error is returned; whether the *other* followed
                    // value was already forwarded depends on an order the property does not fix
                    exp_res = vec![];
                    if s_err { exp_res.push(2 + 1); }
                    if c_err { exp_res.push(obs_unit(&Err(Error::FromNone))); }
                    let before = (ls, lc);
                    let mut after = before;
                    if !s_err { if let Some(v) = s_val { after.0 = Some(v); } }
                    if !c_err { if let Some(v) = c_val { after.1 = Some(v); } }
                    alt = Some(after);
                    // keep `before` as the primary expectation; switch the model to whatever was observed
                    let got = (trace[k].1, trace[k].2);
                    if got == after { ls = after.0; lc = after.1; }
                }
            }
        }
        let (res, gls, glc) = trace[k];
        let ok_state = (gls, glc) == (ls, lc) || alt.map(|a| (gls, glc) == a).unwrap_or(false);
        if !exp_res.contains(&res) || !ok_state {
            e.violation(&format!("settable:terminal:{}", if !exp_res.contains(&res) { "result" } else { "last-request" }), k + 1, || {
                format!("ops [{}]: after op {} result {} last state request {:?} last command request {:?}; model: result in {:?}, state {:?}, command {:?}", tops_show(&seq[..=k]), k, res, gls, glc, exp_res, ls, lc)
            });
            break;
        }
    }
    if nontrivial {
        e.nontrivial += 1;
    }
    n as u64
}

// ---------------------------------------------------------------- history adapter
/// History that answers only for non-negative times, returns the queried time as the value
/// and stamps its datum with a *different* time (rounded down to a multiple of 4), as a
/// sample-and-hold table would.
struct Echo {
    updates: u64,
}
impl History<i64, E> for Echo {
    fn get(&self, time: Time) -> Option<Datum<i64>> {
        if time.0 < 0 {
            None
        } else {
            Some(Datum::new(Time(time.0 - time.0.rem_euclid(4)), time.0))
        }
    }
}
impl Updatable<E> for Echo {
    fn update(&mut self) -> NothingOrError<E> {
        self.updates += 1;
        Ok(())
    }
}
#[derive(Clone, Copy, Debug, PartialEq)]
enum HOp {
    Clock(i64),
    SetDelta(i64),
    SetTime(i64),
    ToggleFail,
    Get,
    Update,
}
const HOPS: [HOp; 11] = [
    HOp::Clock(-3),
    HOp::Clock(0),
    HOp::Clock(5),
    HOp::Clock(1_000_000_000_000),
    HOp::SetDelta(-7),
    HOp::SetDelta(100),
    HOp::SetTime(0),
    HOp::SetTime(50),
    HOp::ToggleFail,
    HOp::Get,
    HOp::Update,
];
fn hops_show(seq: &[usize]) -> String {
    seq.iter().map(|&i| format!("{:?}", HOPS[i])).collect::<Vec<_>>().join(",")
}
const CTORS: [&str; 5] = ["new_no_delta", "new_start_at_zero", "new_custom_start(30)", "new_custom_delta(-12)", "new_start_at_zero(failing clock)"];

fn history_case(ctor: usize, c0: i64, seq: &[usize], e: &mut Eng) -> u64 {
    history_case_b(ctor, c0, seq, e, false)
}
/// `bystander`: a second GetterFromHistory over its own history and clock is constructed right
/// after the one under test and is poked (set_delta / set_time / get, with other values) after
/// every operation; the object under test must behave as if it were alone.
fn history_case_b(ctor: usize, c0: i64, seq: &[usize], e: &mut Eng, bystander: bool) -> u64 {
    let n = seq.len();
    let desc = || format!("{} at clock {} then [{}]{}", CTORS[ctor], c0, hops_show(seq), if bystander { " (with a second, independent GetterFromHistory alive and in use)" } else { "" });
    let r = guard(|| {
        let mut hist2 = Echo { updates: 0 };
        let clock2 = rc(ScrTime::new(Ok(Time(c0 + 1234))));
        let mut hist = Echo { updates: 0 };
        let clock = rc(ScrTime::new(Ok(Time(c0))));
        if ctor == 4 {
            clock.borrow_mut().next = Err(E2);
        }
        let built: Result<GetterFromHistory<i64, ScrTime, E>, Error<E>> = match ctor {
            0 => Ok(GetterFromHistory::new_no_delta(&mut hist, rf(&clock))),
            1 | 4 => GetterFromHistory::new_start_at_zero(&mut hist, rf(&clock)),
            2 => GetterFromHistory::new_custom_start(&mut hist, rf(&clock), Time(30)),
            _ => Ok(GetterFromHistory::new_custom_delta(&mut hist, rf(&clock), Time(-12))),
        };
        let mut g = match built {
            Ok(g) => g,
            Err(er) => return (Some(er), Vec::new()),
        };
        let mut by: Option<GetterFromHistory<i64, ScrTime, E>> = if bystander { Some(GetterFromHistory::new_custom_delta(&mut hist2, rf(&clock2), Time(777))) } else { None };
        let mut now = c0;
        let mut failing = false;
        let mut trace: Vec<(u32, Obs, u64)> = Vec::new();
        for (k, &i) in seq.iter().enumerate() {
            if let Some(b) = by.as_mut() {
                match k % 3 {
                    0 => b.set_delta(Time(1000 + k as i64)),
                    1 => {
                        let _ = b.set_time(Time(-55));
                    }
                    _ => {
                        let _ = b.get();
                    }
                }
            }
            let mut res = 0u32;
            let mut got = Obs::NONE;
            match HOPS[i] {
                HOp::Clock(d) => {
                    now += d;
                    if !failing {
                        clock.borrow_mut().next = Ok(Time(now));
                    }
                }
                HOp::SetDelta(d) => g.set_delta(Time(d)),
                HOp::SetTime(t) => res = obs_unit(&g.set_time(Time(t))),
                HOp::ToggleFail => {
                    failing = !failing;
                    clock.borrow_mut().next = if failing { Err(E2) } else { Ok(Time(now)) };
                }
                HOp::Get => got = obs(&g.get().map(|o| o.map(|d| Datum::new(d.time, d.value as f32)))),
                HOp::Update => res = obs_unit(&g.update()),
            }
            trace.push((res, got, clock.borrow().updates));
        }
        (None, trace)
    });
    let (ctor_err, trace) = match r {
        Ok(x) => x,
        Err(m) => {
            e.violation("history-adapter:panic", n, || format!("{} panicked: {}", desc(), m));
            return n as u64;
        }
    };
    e.outcome(h64(&(ctor, c0, &trace)));
    e.checks += 1;
    if ctor == 4 {
        if ctor_err != Some(E2) {
            e.violation("history-adapter:constructor-error", 0, || format!("{}: constructor returned {:?} instead of the time getter's error", desc(), ctor_err));
        }
        return 0;
    }
    if ctor_err.is_some() {
        e.violation("history-adapter:constructor-error", 0, || format!("{}: constructor failed with {:?}", desc(), ctor_err));
        return 0;
    }
    // model
    let mut offset: i64 = match ctor {
        0 => 0,
        1 => -c0,
        2 => 30 - c0,
        _ => -12,
    };
    let mut now = c0;
    let mut failing = false;
    let mut clock_updates = 0u64;
    let mut nontrivial = false;
    for (k, &i) in seq.iter().enumerate() {
        e.checks += 1;
        let mut exp_res = 0u32;
        let mut exp_get = Obs::NONE;
        match HOPS[i] {
            HOp::Clock(d) => now += d,
            HOp::SetDelta(d) => offset = d,
            HOp::SetTime(t) => {
                if failing {
                    exp_res = 2 + 2;
                } else {
                    offset = t - now;
                    nontrivial = true;
                }
            }
            HOp::ToggleFail => failing = !failing,
            HOp::Get => {
                exp_get = if failing {
                    Obs::err(&E2)
                } else {
                    let q = now + offset;
                    if q < 0 {
                        Obs::NONE
                    } else {
                        Obs { tag: 1, time: now, bits: [(q as f32).to_bits(), 0, 0, 0] }
                    }
                };
            }
            HOp::Update => clock_updates += 1,
        }
        let (res, got, cu) = trace[k];
        if res != exp_res || got != exp_get || cu != clock_updates {
            let cls = if res != exp_res {
                "result"
            } else if cu != clock_updates {
                "update-forwarding"
            } else if got.tag != exp_get.tag {
                "presence"
            } else if got.time != exp_get.time {
                "restamp"
            } else {
                "queried-time"
            };
            e.violation(&format!("history-adapter:{}", cls), k + 1, || {
                format!(
                    "{} at clock {} then [{}]: op {} gave result {} get {} (clock updates {}) but now={} offset={} so the model says result {} get {} (clock updates {})",
                    CTORS[ctor], c0, hops_show(&seq[..=k]), k, res, got.show(), cu, now, offset, exp_res, exp_get.show(), clock_updates
                )
            });
            break;
        }
    }
    if nontrivial {
        e.nontrivial += 1;
    }
    n as u64
}

/// The same adapter with the library's own `Time` as its time getter (a `Reference<Time>` whose
/// target the harness moves): which type provides the clock must not matter.
fn history_time_clock(e: &mut Eng) {
    #[derive(Clone, Copy, Debug)]
    enum X {
        Clock(i64),
        SetDelta(i64),
        SetTime(i64),
        Get,
    }
    let ops = [X::Clock(5), X::Clock(-3), X::Clock(1_000), X::SetDelta(-7), X::SetDelta(100), X::SetTime(50), X::SetTime(0), X::Get];
    for ctor in 0..4usize {
        for &c0 in &[0i64, 17, -5] {
            let total = ipow(ops.len() as u64, 4);
            let mut idx = [0usize; 4];
            for code in 0..total {
                decode(code, ops.len() as u64, &mut idx);
                e.executions += 1;
                e.states += 1;
                e.transitions += 5;
                e.nontrivial += 1;
                let seq: Vec<X> = idx.iter().map(|&i| ops[i]).collect();
                let r = guard(|| -> Result<(), String> {
                    let mut hist = Echo { updates: 0 };
                    let clock = rc(Time(c0));
                    let mut g: GetterFromHistory<i64, Time, E> = match ctor {
                        0 => GetterFromHistory::new_no_delta(&mut hist, rf(&clock)),
                        1 => GetterFromHistory::new_start_at_zero(&mut hist, rf(&clock)).map_err(|er| format!("{:?}", er))?,
                        2 => GetterFromHistory::new_custom_start(&mut hist, rf(&clock), Time(30)).map_err(|er| format!("{:?}", er))?,
                        _ => GetterFromHistory::new_custom_delta(&mut hist, rf(&clock), Time(-12)),
                    };
                    let mut now = c0;
                    let mut offset: i64 = match ctor {
                        0 => 0,
                        1 => -c0,
                        2 => 30 - c0,
                        _ => -12,
                    };
                    let mut steps: Vec<X> = vec![X::Get];
                    steps.extend(seq.iter().cloned());
                    steps.push(X::Get);
                    for (k, op) in steps.iter().enumerate() {
                        match *op {
                            X::Clock(d) => {
                                now += d;
                                *clock.borrow_mut() = Time(now);
                            }
                            X::SetDelta(d) => {
                                g.set_delta(Time(d));
                                offset = d;
                            }
                            X::SetTime(t) => {
                                g.set_time(Time(t)).map_err(|er| format!("set_time failed: {:?}", er))?;
                                offset = t - now;
                            }
                            X::Get => {
                                let got = g.get().map_err(|er| format!("get failed: {:?}", er))?;
                                let q = now + offset;
                                let want = if q < 0 { None } else { Some(Datum::new(Time(now), q)) };
                                if got != want {
                                    return Err(format!("step {} ({:?}): get() = {:?} but now = {} and the offset is {}, so it must be {:?}", k, op, got, now, offset, want));
                                }
                            }
                        }
                    }
                    Ok(())
                });
                match r {
                    Ok(Ok(())) => e.outcome(h64(&(ctor, c0, code))),
                    Ok(Err(m)) => e.violation("history-adapter:time-as-clock", 4, || format!("{} with `Time` itself as the time getter, clock {} then {:?}: {}", CTORS[ctor], c0, seq, m)),
                    Err(m) => e.violation("history-adapter:panic", 4, || format!("{} with `Time` as the time getter, clock {} then {:?} panicked: {}", CTORS[ctor], c0, seq, m)),
                }
            }
        }
    }
}

/// Extreme clock values: every step whose specified arithmetic (t - now, now + offset) fits in i64
/// must work; steps that would overflow by specification end the case.
/// A history defined on all of i64 whose value is the queried time itself (exact, as i64).
struct EchoAll;
impl History<i64, E> for EchoAll {
    fn get(&self, time: Time) -> Option<Datum<i64>> {
        Some(Datum::new(Time(time.0 ^ 0x55), time.0))
    }
}
impl Updatable<E> for EchoAll {
    fn update(&mut self) -> NothingOrError<E> {
        Ok(())
    }
}

/// Offsets at the edge of i64: every (clock, argument) pair of an alphabet with both i64 extremes
/// and their neighbours, for each way of fixing the offset (new_custom_start, set_time,
/// new_custom_delta, set_delta). Whenever the specified arithmetic (argument - now, now + offset;
/// judged in i128) fits in i64, get() must return the history's value at exactly that instant - the
/// history is defined on all of i64 and resolves single nanoseconds - restamped with now, also after
/// the clock moved on by 1 and by 3 ns.
fn history_extreme_offsets(e: &mut Eng) {
    const A: [i64; 11] = [i64::MIN, i64::MIN + 1, i64::MIN + 2, -2, -1, 0, 1, 2, i64::MAX - 2, i64::MAX - 1, i64::MAX];
    let fits = |x: i128| x >= i64::MIN as i128 && x <= i64::MAX as i128;
    for &c0 in &A {
        for &a in &A {
            for how in 0..4usize {
                // offset fixed by this (clock, argument, way): None = the specified arithmetic overflows
                let offset: Option<i64> = match how {
                    0 | 1 => {
                        let o = a as i128 - c0 as i128;
                        if fits(o) { Some(o as i64) } else { None }
                    }
                    _ => Some(a),
                };
                let offset = match offset {
                    Some(o) => o,
                    None => continue,
                };
                e.executions += 1;
                e.states += 1;
                e.nontrivial += 1;
                let r = guard(|| -> Result<(), String> {
                    let mut hist = EchoAll;
                    let clock = rc(ScrTime::new(Ok(Time(c0))));
                    let mut g: GetterFromHistory<i64, ScrTime, E> = match how {
                        0 => GetterFromHistory::new_custom_start(&mut hist, rf(&clock), Time(a)).map_err(|er| format!("constructor failed: {:?}", er))?,
                        2 => GetterFromHistory::new_custom_delta(&mut hist, rf(&clock), Time(a)),
                        _ => GetterFromHistory::new_no_delta(&mut hist, rf(&clock)),
                    };
                    if how == 1 {
                        g.set_time(Time(a)).map_err(|er| format!("set_time failed: {:?}", er))?;
                    }
                    if how == 3 {
                        g.set_delta(Time(a));
                    }
                    for step in [0i64, 1, 3] {
                        let now = match c0.checked_add(step) {
                            Some(n) => n,
                            None => break,
                        };
                        let q = now as i128 + offset as i128;
                        if !fits(q) {
                            break;
                        }
                        clock.borrow_mut().next = Ok(Time(now));
                        match g.get() {
                            Ok(Some(d)) if d.time == Time(now) && d.value == q as i64 => {}
                            other => return Err(format!("with the clock at {} get() = {:?}, expected the history's value at {} restamped with {}", now, other, q, now)),
                        }
                    }
                    Ok(())
                });
                e.transitions += 3;
                e.checks += 3;
                let names = ["new_custom_start(a)", "new_no_delta then set_time(a)", "new_custom_delta(a)", "new_no_delta then set_delta(a)"];
                match r {
                    Ok(Ok(())) => e.outcome(h64(&(c0, a, how))),
                    Ok(Err(m)) => e.violation("history-adapter:extreme-offset:value", 2, || format!("{} with a = {} and the clock at {} (offset {} fits in i64): {}", names[how], a, c0, offset, m)),
                    Err(m) => e.violation("history-adapter:extreme-offset:panic", 2, || format!("{} with a = {} and the clock at {} (offset {} fits in i64) panicked: {}", names[how], a, c0, offset, m)),
                }
            }
        }
    }
}

fn history_extreme_clocks(e: &mut Eng) {
    #[derive(Clone, Copy, Debug)]
    enum X {
        SetTime(i64),
        SetDelta(i64),
        Get,
    }
    let ops = [X::SetTime(-5), X::SetTime(5), X::SetTime(0), X::SetDelta(0), X::SetDelta(7), X::SetDelta(-7), X::Get];
    for &c0 in &[i64::MIN, i64::MIN + 1, -1, i64::MAX - 1, i64::MAX] {
        for ctor in [0usize, 3] {
            let total = ipow(ops.len() as u64, 3);
            let mut idx = [0usize; 3];
            for code in 0..total {
                decode(code, ops.len() as u64, &mut idx);
                e.executions += 1;
                e.states += 1;
                e.nontrivial += 1;
                let mut offset: i64 = if ctor == 0 { 0 } else { -12 };
                // model first: find the longest prefix whose specified arithmetic does not overflow
                let mut expected: Vec<Option<Obs>> = Vec::new();
                let mut valid = 0;
                for &i in &idx {
                    match ops[i] {
                        X::SetTime(t) => match t.checked_sub(c0) {
                            Some(o) => {
                                offset = o;
                                expected.push(None);
                            }
                            None => break,
                        },
                        X::SetDelta(d) => {
                            offset = d;
                            expected.push(None);
                        }
                        X::Get => match c0.checked_add(offset) {
                            Some(q) => expected.push(Some(if q < 0 { Obs::NONE } else { Obs { tag: 1, time: c0, bits: [(q as f32).to_bits(), 0, 0, 0] } })),
                            None => break,
                        },
                    }
                    valid += 1;
                }
                let seq: Vec<X> = idx[..valid].iter().map(|&i| ops[i]).collect();
                let r = guard(|| {
                    let mut hist = Echo { updates: 0 };
                    let clock = rc(ScrTime::new(Ok(Time(c0))));
                    let mut g: GetterFromHistory<i64, ScrTime, E> = if ctor == 0 { GetterFromHistory::new_no_delta(&mut hist, rf(&clock)) } else { GetterFromHistory::new_custom_delta(&mut hist, rf(&clock), Time(-12)) };
                    let mut out = Vec::new();
                    for op in &seq {
                        match op {
                            X::SetTime(t) => {
                                out.push((obs_unit(&g.set_time(Time(*t))), None));
                            }
                            X::SetDelta(d) => {
                                g.set_delta(Time(*d));
                                out.push((0, None));
                            }
                            X::Get => out.push((0, Some(obs(&g.get().map(|o| o.map(|d| Datum::new(d.time, d.value as f32))))))),
                        }
                    }
                    out
                });
                e.transitions += valid as u64;
                e.checks += 1;
                match r {
                    Err(m) => e.violation("history-adapter:extreme-clock:panic", valid, || format!("{} with the clock at {} then {:?}: panicked ({}) although every specified step fits in i64", CTORS[ctor], c0, seq, m)),
                    Ok(out) => {
                        e.outcome(h64(&(c0, ctor, &out)));
                        for (k, (res, got)) in out.iter().enumerate() {
                            if *res != 0 || (got.is_some() && *got != expected[k]) {
                                e.violation("history-adapter:extreme-clock:value", k + 1, || format!("{} with the clock at {} then {:?}: step {} gave result {} get {:?}, expected {:?}", CTORS[ctor], c0, seq, k, res, got.map(|o| o.show()), expected[k].map(|o| o.show())));
                                break;
                            }
                        }
                    }
                }
            }
        }
    }
    e.sample(|| "new_no_delta with the clock at i64::MIN then set_time(-5), get -> history(-5) is absent; set_time(5)... overflow by specification ends the case".to_string());
}

fn time_getters(e: &mut Eng) {
    for t in [i64::MIN, -5, 0, 7, i64::MAX] {
        for cat in 0..4 {
            e.executions += 1;
            e.states += 1;
            e.transitions += 2;
            e.checks += 1;
            e.nontrivial += 1;
            let inp: Output<f32, E> = match cat {
                0 => Ok(Some(Datum::new(Time(t), 1.5))),
                1 => Ok(None),
                2 => Err(E1),
                _ => Err(Error::FromNone),
            };
            let exp: TimeOutput<E> = match cat {
                0 => Ok(Time(t)),
                1 => Err(Error::FromNone),
                2 => Err(E1),
                _ => Err(Error::FromNone),
            };
            let g = rc(Scr::<f32>::new(inp.clone()));
            let r = guard(|| {
                let mut tg = TimeGetterFromGetter::new(rf(&g));
                let a = tg.get();
                let u = tg.update();
                let b = tg.get();
                (a, u, b)
            });
            e.outcome(h64(&format!("{:?}", r)));
            match r {
                Ok((a, u, b)) if a == exp && b == exp && u == Ok(()) => {}
                other => e.violation("time-getter-from-getter", 1, || format!("input {:?}: got {:?}, expected {:?}", inp, other, exp)),
            }
            // Time itself is a time getter returning itself
            let tt = Time(t);
            if <Time as TimeGetter<E>>::get(&tt) != Ok(Time(t)) {
                e.violation("time-as-time-getter", 1, || format!("Time({}) as a time getter", t));
            }
        }
    }
    e.sample(|| "TimeGetterFromGetter over input Ok(None) -> Err(FromNone)".to_string());
}

pub fn run(ctx: &Ctx) -> Vec<Eng> {
    let budget = Budget::secs(if ctx.thorough { 1500 } else { 100 });
    let depth = if ctx.thorough { 8 } else { 7 };
    let mut e1 = Eng::new(
        "c15-settable-following",
        "all operation sequences of exactly `depth` ops over {set(1), set(2), toggle inner-rejects, follow(g1), follow(g2), stop_following, update, g1:=P(7)/N/E1} on a recording settable and on ConstantGetter (as a settable); reference = bookkeeping struct (last successful request, forwarded values, update result, constant getter value at the clock time); non-trivial = an update forwarded a followed value",
        &format!("depth {} => 10^{} sequences x 2 settables", depth, depth),
    );
    for constant in [false, true] {
        par_seqs(&mut e1, OPS.len(), depth, budget, |seq, e| {
            let a = settable_history(seq, constant, e);
            e.sample(|| format!("constant={} [{}]", constant, ops_show(seq)));
            a
        });
    }
    // the ConstantGetter again with its own time getter failing (two error values): one step shorter
    for mode in 1..=2u8 {
        par_seqs(&mut e1, OPS.len(), depth - 2, budget, |seq, e| {
            CG_CLOCK.with(|c| c.set(mode));
            let a = settable_history(seq, true, e);
            CG_CLOCK.with(|c| c.set(0));
            a
        });
    }
    e1.bounds.push_str(&format!("; plus 10^{} sequences x 2 on ConstantGetter whose own time getter returns Err(Other(9)) / Err(FromNone) (bookkeeping and update results judged, not get())", depth - 2));
    {
        // long runs: follow(g1) then 40 operations within 2 deviations of `update`
        let cases = deviation_cases(40, OPS.len() - 1, 2);
        for constant in [false, true] {
            par_cases(&mut e1, &cases, budget, |c, e| {
                let mut seq = vec![6usize; 41]; // Update
                seq[0] = 3; // Follow(1)
                for &(p, a) in c {
                    let a = a as usize;
                    seq[p as usize + 1] = if a >= 6 { a + 1 } else { a };
                }
                e.executions += 1;
                e.states += 1;
                e.max_depth = e.max_depth.max(41);
                e.transitions += settable_history(&seq, constant, e);
            });
        }
        e1.bounds.push_str("; plus follow(g1) followed by all 40-operation sequences within 2 deviations of `update`");
    }
    {
        let (ph, maxp) = if ctx.thorough { (48, 4) } else { (40, 3) };
        for constant in [false, true] {
            par_periodic(&mut e1, OPS.len(), maxp, ph, budget, |seq, e| settable_history(seq, constant, e));
            par_long(&mut e1, OPS.len(), 2, &LONG_LENS, budget, |seq, e| {
                // follow(g1) first, so that updates forward
                let mut s2 = vec![3usize];
                s2.extend_from_slice(seq);
                settable_history(&s2, constant, e)
            });
        }
        e1.bounds.push_str(&format!("; plus long runs: follow(g1), then every primitive word of length <= 2 repeated to 255..257 and 511..513 operations followed by one operation of each kind ({} sequences x 2 settables)", long_count(OPS.len(), 2, &LONG_LENS)));
        e1.bounds.push_str(&format!("; plus periodic sequences: every primitive word of length <= {} over the 10 operations repeated to {} operations, with at most one deviation ({} sequences x 2 settables)", maxp, ph, periodic_count(OPS.len(), maxp, ph)));
    }
    let tdepth = if ctx.thorough { 6 } else { 5 };
    let mut e1b = Eng::new(
        "c15-terminal-following",
        "a Terminal (which is a settable for states and for commands) following a state getter and a command getter: all sequences of exactly `depth` ops over {follow/stop for each, update, each getter := P/P'/N/E, direct set of a state / a command}; model: each update forwards exactly the present followed values into the matching last-request slot, nothing when absent or after stop_following, returns a followed getter's error (which of two followed values is forwarded before an error is returned is not constrained); non-trivial = an update forwarded a value",
        &format!("depth {} => 15^{} sequences", tdepth, tdepth),
    );
    par_seqs(&mut e1b, TOPS.len(), tdepth, budget, |seq, e| {
        let a = terminal_history(seq, e);
        e.sample(|| tops_show(seq));
        a
    });
    {
        let (ph, maxp) = if ctx.thorough { (48, 3) } else { (40, 3) };
        par_periodic(&mut e1b, TOPS.len(), maxp, ph, budget, |seq, e| terminal_history(seq, e));
        par_long(&mut e1b, TOPS.len(), 2, &LONG_LENS, budget, |seq, e| terminal_history(seq, e));
        e1b.bounds.push_str(&format!("; plus periodic sequences: every primitive word of length <= {} over the 15 operations repeated to {} operations, with at most one deviation ({} sequences)", maxp, ph, periodic_count(TOPS.len(), maxp, ph)));
    }
    let hdepth = if ctx.thorough { 7 } else { 6 };
    let mut e2 = Eng::new(
        "c15-history-adapter",
        "GetterFromHistory: 4 constructor forms (+ start-at-zero with a failing clock) x 2 construction clock values x all sequences of exactly `depth` ops over {clock += -3/0/5/1e12, set_delta(-7/100), set_time(0/50), toggle failing time getter, get, update} over a history that echoes the queried time as value, is absent for negative times and stamps its data with a different time; reference: get = Datum(now, history(now + offset)), offset per constructor / set_delta / set_time; non-trivial = a successful set_time",
        &format!("depth {} => 11^{} sequences x 4 constructors x 2 clocks", hdepth, hdepth),
    );
    for ctor in 0..4 {
        for c0 in [0i64, 17] {
            par_seqs(&mut e2, HOPS.len(), hdepth, budget, |seq, e| {
                let a = history_case(ctor, c0, seq, e);
                e.sample(|| format!("{} at clock {} [{}]", CTORS[ctor], c0, hops_show(seq)));
                a
            });
        }
    }
    {
        let cases = deviation_cases(40, HOPS.len() - 1, 2);
        for ctor in 0..4 {
            par_cases(&mut e2, &cases, budget, |c, e| {
                let mut seq = vec![9usize; 40]; // Get
                for &(p, a) in c {
                    let a = a as usize;
                    seq[p as usize] = if a >= 9 { a + 1 } else { a };
                }
                e.executions += 1;
                e.states += 1;
                e.max_depth = e.max_depth.max(40);
                e.transitions += history_case(ctor, 17, &seq, e);
            });
        }
        e2.bounds.push_str("; plus all 40-operation sequences within 2 deviations of `get`");
    }
    {
        // with a bystander object alive (one step shorter)
        for ctor in 0..4 {
            par_seqs(&mut e2, HOPS.len(), hdepth - 1, budget, |seq, e| history_case_b(ctor, 17, seq, e, true));
        }
        e2.bounds.push_str("; plus all sequences one step shorter with a second, independent GetterFromHistory (own history, own clock, other offsets) alive and poked after every operation");
    }
    {
        let (ph, maxp) = (40, 3);
        for ctor in 0..4 {
            par_periodic(&mut e2, HOPS.len(), maxp, ph, budget, |seq, e| history_case(ctor, 17, seq, e));
            par_long(&mut e2, HOPS.len(), 2, &LONG_LENS, budget, |seq, e| history_case(ctor, 17, seq, e));
        }
        e2.bounds.push_str(&format!("; plus periodic sequences: every primitive word of length <= {} over the 11 operations repeated to {} operations, with at most one deviation ({} sequences x 4 constructors)", maxp, ph, periodic_count(HOPS.len(), maxp, ph)));
    }
    history_time_clock(&mut e2);
    e2.bounds.push_str("; plus the library's own `Time` as the time getter: 4 constructors x 3 construction clocks x all 8^4 sequences over {clock += 5/-3/1000, set_delta(-7/100), set_time(50/0), get}");
    history_extreme_clocks(&mut e2);
    history_extreme_offsets(&mut e2);
    e2.notes.push("extreme offsets: 11 x 11 (clock, argument) pairs over {MIN, MIN+1, MIN+2, -2..2, MAX-2, MAX-1, MAX} x {new_custom_start, set_time, new_custom_delta, set_delta} with a history defined on all of i64 whose value is the queried instant: whenever argument - now and now + offset fit in i64 (judged in i128), get() returns exactly that instant's value restamped with now, also 1 and 3 ns later".into());
    e2.bounds.push_str("; plus clocks at i64::MIN, MIN+1, -1, MAX-1, MAX x 2 constructors x all 7^3 sequences of set_time/set_delta/get (steps that overflow by specification end the case)");
    history_case(4, 3, &[], &mut e2);
    e2.executions += 1;
    let mut e3 = Eng::new(
        "c15-time-getters",
        "TimeGetterFromGetter over {P(t), N, E1, FromNone} x t in {MIN,-5,0,7,MAX}; Time as a time getter",
        "20 cases",
    );
    time_getters(&mut e3);
    vec![e1, e1b, e2, e3]
}
