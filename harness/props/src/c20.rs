//! C20 — device wrappers relay data between getters/settables and terminals unaltered.
use crate::env::*;
use crate::mc::*;
use crate::Ctx;
use rrtk::devices::wrappers::*;
use rrtk::streams::control::CommandPID;
use rrtk::*;
use std::cell::RefCell;
use std::rc::Rc;

type Term<'a> = RefCell<Terminal<'a, E>>;

struct ProbeState<S> {
    log: Vec<S>,
    accept: bool,
    updates: u64,
    update_result: NothingOrError<E>,
    order: Vec<u8>,
}
/// Inner settable whose observations live outside the wrapper that owns it.
struct Probe<S: Clone> {
    st: Rc<RefCell<ProbeState<S>>>,
    data: SettableData<S, E>,
}
fn probe<S: Clone>() -> (Probe<S>, Rc<RefCell<ProbeState<S>>>) {
    let st = Rc::new(RefCell::new(ProbeState { log: vec![], accept: true, updates: 0, update_result: Ok(()), order: vec![] }));
    (Probe { st: st.clone(), data: SettableData::new() }, st)
}
impl<S: Clone> Settable<S, E> for Probe<S> {
    fn impl_set(&mut self, v: S) -> NothingOrError<E> {
        let mut s = self.st.borrow_mut();
        s.order.push(b's');
        if s.accept {
            s.log.push(v);
            Ok(())
        } else {
            Err(E3)
        }
    }
    fn get_settable_data_ref(&self) -> &SettableData<S, E> {
        &self.data
    }
    fn get_settable_data_mut(&mut self) -> &mut SettableData<S, E> {
        &mut self.data
    }
}
impl<S: Clone> Updatable<E> for Probe<S> {
    fn update(&mut self) -> NothingOrError<E> {
        {
            let mut s = self.st.borrow_mut();
            s.order.push(b'u');
            s.updates += 1;
        }
        self.update_following_data()?;
        self.st.borrow().update_result
    }
}
struct GState {
    next: Output<State, E>,
    updates: u64,
    update_result: NothingOrError<E>,
}
struct ProbeGetter {
    st: Rc<RefCell<GState>>,
}
impl Getter<State, E> for ProbeGetter {
    fn get(&self) -> Output<State, E> {
        self.st.borrow().next.clone()
    }
}
impl Updatable<E> for ProbeGetter {
    fn update(&mut self) -> NothingOrError<E> {
        let mut s = self.st.borrow_mut();
        s.updates += 1;
        s.update_result
    }
}

const SA: State = State { position: 1.0, velocity: -2.0, acceleration: 0.5 };
const SB: State = State { position: -6.0, velocity: 3.0, acceleration: 8.0 };
const CA: Command = Command::Position(3.0);
const CB: Command = Command::Velocity(-1.0);

/// what the partner terminal receives in a round
/// 0 nothing, 1 state A new, 2 state B new, 3 cmd A new, 4 cmd B new, 5 state A + cmd A new,
/// 6 state A with the previous state's timestamp, 7 state B with an older timestamp
const NPART: usize = 8;
/// error of a failing inner update in round k: Other(2) in even rounds, the crate's own FromNone in
/// odd ones (the inner getter's error alternates the other way round, see env::err_at)
fn upd_error(k: usize) -> Error<E> {
    if k % 2 == 0 {
        E2
    } else {
        Error::FromNone
    }
}
fn part_show(p: usize) -> &'static str {
    ["-", "sA@new", "sB@new", "cA@new", "cB@new", "sA+cA@new", "sA@same", "sB@old"][p]
}
fn apply_partner(x: &Term, p: usize, now: i64, last_state_t: &mut i64) {
    let mut set_s = |s: State, t: i64| {
        x.borrow_mut().set(Datum::new(Time(t), s)).unwrap();
    };
    match p {
        1 => {
            set_s(SA, now);
            *last_state_t = now;
        }
        2 => {
            set_s(SB, now);
            *last_state_t = now;
        }
        5 => {
            set_s(SA, now);
            *last_state_t = now;
        }
        6 => set_s(SA, *last_state_t),
        7 => {
            set_s(SB, now - 3 * S);
            *last_state_t = now - 3 * S;
        }
        _ => {}
    }
    match p {
        3 | 5 => x.borrow_mut().set(Datum::new(Time(now), CA)).unwrap(),
        4 => x.borrow_mut().set(Datum::new(Time(now), CB)).unwrap(),
        _ => {}
    }
}
fn round_time(k: usize) -> i64 {
    // irregular dyadic spacing starting below the PID wrapper's initial time
    S + (k as i64) * S / 2 + if k % 3 == 2 { 2 * S } else { 0 }
}
fn combined(t: &Term) -> Option<Datum<TerminalData>> {
    <Terminal<E> as Getter<TerminalData, E>>::get(&t.borrow()).unwrap()
}
fn own_state(t: &Term) -> Option<Datum<State>> {
    <Terminal<E> as Settable<Datum<State>, E>>::get_last_request(&t.borrow())
}
fn own_cmd(t: &Term) -> Option<Datum<Command>> {
    <Terminal<E> as Settable<Datum<Command>, E>>::get_last_request(&t.borrow())
}

// symbol = partner option + NPART * (inner flags)
fn sym_show(kind: usize, s: usize) -> String {
    let p = s % NPART;
    let f = s / NPART;
    match kind {
        1 => format!("{}|getter {}|inner.update {}", part_show(p), ["P", "P'", "N", "E1", "Z (fixed timestamp, position +0 / -0 alternating)"][f % 5], if f / 5 == 0 { "Ok" } else { "E2" }),
        _ => format!("{}|inner {}|inner.update {}", part_show(p), if f % 2 == 0 { "accepts" } else { "rejects" }, if f / 2 == 0 { "Ok" } else { "E2" }),
    }
}
fn seq_show(kind: usize, seq: &[usize]) -> String {
    seq.iter().map(|&s| sym_show(kind, s)).collect::<Vec<_>>().join("; ")
}

fn nan_eq(a: f32, b: f32) -> bool {
    a == b || (a.is_nan() && b.is_nan())
}

thread_local! {
    /// when set, every case also keeps a second wrapper of the same kind alive (own inner object, own
    /// external terminal, other data) and updates it before each update of the wrapper under test
    static BYSTANDER: std::cell::Cell<bool> = std::cell::Cell::new(false);
}
fn run_case_by(kind: usize, seq: &[usize], e: &mut Eng) -> u64 {
    BYSTANDER.with(|b| b.set(true));
    let r = run_case(kind, seq, e);
    BYSTANDER.with(|b| b.set(false));
    r
}
/// kind 0: ActuatorWrapper, 1: GetterStateDeviceWrapper, 2: PIDWrapper
fn run_case(kind: usize, seq: &[usize], e: &mut Eng) -> u64 {
    let n = seq.len();
    let name = ["actuator", "encoder", "pid-wrapper"][kind];
    let r = guard(|| -> Result<bool, (String, usize, String)> {
        let x: Term = Terminal::new();
        let mut last_state_t = 0i64;
        let mut nontrivial = false;
        // bystander: a second wrapper of the same kind with its own inner object and terminal
        let x2: Term = Terminal::new();
        let mut lst2 = 0i64;
        let by_on = BYSTANDER.with(|b| b.get());
        let (p2a, _s2a) = probe::<TerminalData>();
        let mut by_a = if by_on && kind == 0 { Some(ActuatorWrapper::new(p2a)) } else { None };
        let g2 = Rc::new(RefCell::new(GState { next: Ok(Some(Datum::new(Time(-123), State::new_raw(77.0, -88.0, 99.0)))), updates: 0, update_result: Ok(()) }));
        let mut by_g = if by_on && kind == 1 { Some(GetterStateDeviceWrapper::new(ProbeGetter { st: g2.clone() })) } else { None };
        let (p2p, _s2p) = probe::<f32>();
        let mut by_p = if by_on && kind == 2 { Some(PIDWrapper::new(p2p, Time(S), State::new_raw(-20.0, 3.0, 0.0), Command::Position(-20.0), crate::c11::kvals())) } else { None };
        if let Some(b) = by_a.as_ref() {
            connect(b.get_terminal(), &x2);
        }
        if let Some(b) = by_g.as_ref() {
            connect(b.get_terminal(), &x2);
        }
        if let Some(b) = by_p.as_ref() {
            connect(b.get_terminal(), &x2);
        }
        let mut poke = |k: usize| {
            if !by_on {
                return;
            }
            // states only in most rounds (an encoder-style partner), other data than the main wrapper's
            apply_partner(&x2, [1usize, 2, 0, 1, 4][k % 5], round_time(k) + 7, &mut lst2);
            if let Some(b) = by_a.as_mut() {
                let _ = b.update();
            }
            if let Some(b) = by_g.as_mut() {
                g2.borrow_mut().next = Ok(Some(Datum::new(Time(-123 - k as i64), State::new_raw(77.0 + k as f32, -88.0, 99.0))));
                let _ = b.update();
            }
            if let Some(b) = by_p.as_mut() {
                let _ = b.update();
            }
        };
        match kind {
            0 => {
                let (p, st) = probe::<TerminalData>();
                let mut w = ActuatorWrapper::new(p);
                connect(w.get_terminal(), &x);
                for (k, &s) in seq.iter().enumerate() {
                    let (part, f) = (s % NPART, s / NPART);
                    apply_partner(&x, part, round_time(k), &mut last_state_t);
                    st.borrow_mut().accept = f % 2 == 0;
                    st.borrow_mut().update_result = if f / 2 == 0 { Ok(()) } else { Err(upd_error(k)) };
                    let seen = combined(w.get_terminal());
                    let seen2 = combined(w.get_terminal());
                    let (log0, upd0) = (st.borrow().log.len(), st.borrow().updates);
                    st.borrow_mut().order.clear();
                    let own_before = (own_state(w.get_terminal()), own_cmd(w.get_terminal()));
                    poke(k);
                    let res = w.update();
                    let s_ = st.borrow();
                    let order = String::from_utf8(s_.order.clone()).unwrap();
                    if seen != seen2 {
                        return Err(("impure-read".into(), k, "combined terminal read changed between two reads".into()));
                    }
                    if seen.is_some() {
                        nontrivial = true;
                    }
                    let fail = |cls: &str, what: String| Err((cls.to_string(), k, format!("terminal saw {:?}; inner calls '{}' log grew by {} update() = {:?}: {}", seen, order, s_.log.len() - log0, res, what)));
                    match (seen, f % 2 == 0) {
                        (None, _) => {
                            if order != "u" || s_.log.len() != log0 {
                                return fail("set-without-data", "nothing seen at the terminal, so the inner settable must only be updated".into());
                            }
                            if res != s_.update_result {
                                return fail("result", "update() must return the inner update's result".into());
                            }
                        }
                        (Some(d), true) => {
                            if order != "su" || s_.log.len() != log0 + 1 || s_.log[log0] != d.value {
                                return fail("relay", format!("the inner settable must receive exactly {:?} once and then be updated once", d.value));
                            }
                            if res != s_.update_result {
                                return fail("result", "update() must return the inner update's result".into());
                            }
                        }
                        (Some(_), false) => {
                            if !(order == "s" || order == "su") || s_.log.len() != log0 {
                                return fail("relay", "a rejected set must be attempted exactly once".into());
                            }
                            if res != Err(E3) {
                                return fail("result", "the inner settable's rejection must be returned".into());
                            }
                        }
                    }
                    let _ = upd0;
                    if (own_state(w.get_terminal()), own_cmd(w.get_terminal())) != own_before {
                        return fail("terminal-written", "an actuator wrapper must not write to its terminal".into());
                    }
                }
            }
            1 => {
                let st = Rc::new(RefCell::new(GState { next: Ok(None), updates: 0, update_result: Ok(()) }));
                let mut w = GetterStateDeviceWrapper::new(ProbeGetter { st: st.clone() });
                connect(w.get_terminal(), &x);
                for (k, &s) in seq.iter().enumerate() {
                    let (part, f) = (s % NPART, s / NPART);
                    let now = round_time(k);
                    apply_partner(&x, part, now, &mut last_state_t);
                    let inner: Output<State, E> = match f % 5 {
                        0 => Ok(Some(Datum::new(Time(now - 7), State::new_raw(0.1 + k as f32, -7.3, 1e3)))),
                        1 => Ok(Some(Datum::new(Time(-now), State::new_raw(-0.0, f32::MIN_POSITIVE, 3.0)))),
                        2 => Ok(None),
                        3 => Err(err_at(k)),
                        // a re-reported datum: always the same timestamp, and a state that differs from the
                        // previous report only in the sign of a zero (equal under `==`, not the same value)
                        _ => Ok(Some(Datum::new(Time(-1_000), State::new_raw(if k % 2 == 0 { 0.0 } else { -0.0 }, if k % 2 == 0 { -0.0 } else { 0.0 }, 3.0)))),
                    };
                    st.borrow_mut().next = inner.clone();
                    st.borrow_mut().update_result = if f / 5 == 0 { Ok(()) } else { Err(upd_error(k)) };
                    let upd0 = st.borrow().updates;
                    let own0 = (own_state(w.get_terminal()), own_cmd(w.get_terminal()));
                    let xown0 = (own_state(&x), own_cmd(&x));
                    poke(k);
                    let res = w.update();
                    let own1 = (own_state(w.get_terminal()), own_cmd(w.get_terminal()));
                    let fail = |cls: &str, what: String| Err((cls.to_string(), k, format!("inner getter {:?}, inner update result {:?}; wrapper update() = {:?}, terminal own state {:?} -> {:?}: {}", inner, st.borrow().update_result, res, own0.0, own1.0, what)));
                    if st.borrow().updates != upd0 + 1 {
                        return fail("inner-update-count", format!("inner getter updated {} times", st.borrow().updates - upd0));
                    }
                    if (own_state(&x), own_cmd(&x)) != xown0 || own1.1 != own0.1 {
                        return fail("foreign-slot-written", "only the wrapper's own state slot may be written".into());
                    }
                    let upd_err = f / 5 != 0;
                    match (&inner, upd_err) {
                        (_, true) => {
                            if res != Err(upd_error(k)) {
                                return fail("result", "the inner update's error must be returned".into());
                            }
                        }
                        (Err(er), false) => {
                            if res != Err(*er) || own1.0 != own0.0 {
                                return fail("result", "the inner getter's error must be returned and the terminal left untouched".into());
                            }
                        }
                        (Ok(None), false) => {
                            if res != Ok(()) || own1.0 != own0.0 {
                                return fail("absent-written", "an absent inner state must leave the terminal untouched".into());
                            }
                        }
                        (Ok(Some(d)), false) => {
                            nontrivial = true;
                            let same = match own1.0 {
                                Some(o) => o.time == d.time && o.value.position.to_bits() == d.value.position.to_bits() && o.value.velocity.to_bits() == d.value.velocity.to_bits() && o.value.acceleration.to_bits() == d.value.acceleration.to_bits(),
                                None => false,
                            };
                            if res != Ok(()) || !same {
                                return fail("relay", format!("the terminal must now hold exactly {:?}", d));
                            }
                        }
                    }
                }
            }
            _ => {
                let kv = crate::c11::kvals();
                let init_state = State::new_raw(0.5, 0.25, -1.0);
                let init_cmd = CA;
                let init_time = Time(3 * S);
                let (p, st) = probe::<f32>();
                let mut w = PIDWrapper::new(p, init_time, init_state, init_cmd, kv);
                connect(w.get_terminal(), &x);
                // stand-alone controller driven with what the terminal sees
                let clock = rc(init_time);
                let sg = rc(ConstantGetter::<State, Time, E>::new(rf(&clock), init_state));
                let mut pid = CommandPID::new(rf(&sg), init_cmd, kv);
                for (k, &s) in seq.iter().enumerate() {
                    let (part, f) = (s % NPART, s / NPART);
                    apply_partner(&x, part, round_time(k), &mut last_state_t);
                    st.borrow_mut().accept = f % 2 == 0;
                    st.borrow_mut().update_result = if f / 2 == 0 { Ok(()) } else { Err(upd_error(k)) };
                    let seen = combined(w.get_terminal());
                    let log0 = st.borrow().log.len();
                    let mut pid_err = None;
                    if let Some(d) = seen {
                        nontrivial = true;
                        *clock.borrow_mut() = d.value.time;
                        if let Some(s) = d.value.state {
                            sg.borrow_mut().set(s).unwrap();
                        }
                        if let Some(c) = d.value.command {
                            pid.set(c).unwrap();
                        }
                        if let Err(er) = pid.update() {
                            pid_err = Some(er);
                        }
                    }
                    let expect = pid.get();
                    poke(k);
                    let res = w.update();
                    let s_ = st.borrow();
                    let fail = |cls: &str, what: String| Err((cls.to_string(), k, format!("terminal saw {:?}; stand-alone CommandPID now outputs {:?}; motor log grew by {:?}, wrapper update() = {:?}: {}", seen, expect, &s_.log[log0..], res, what)));
                    if pid_err.is_some() {
                        continue;
                    }
                    match expect {
                        Ok(Some(d)) => {
                            if f % 2 == 0 {
                                if s_.log.len() != log0 + 1 || !nan_eq(s_.log[log0], d.value) {
                                    return fail("drive-value", format!("the motor must be set to exactly {:?}", d.value));
                                }
                                if res != s_.update_result {
                                    return fail("result", "update() must return the motor update's result".into());
                                }
                            } else if s_.log.len() != log0 || res != Err(E3) {
                                return fail("result", "the motor's rejection must be returned".into());
                            }
                        }
                        Ok(None) => {
                            if s_.log.len() != log0 {
                                return fail("drive-value", "the controller output is absent, the motor must not be set".into());
                            }
                        }
                        Err(_) => {}
                    }
                }
            }
        }
        Ok(nontrivial)
    });
    match r {
        Err(m) => e.violation(&format!("wrapper:{}:panic", name), n, || format!("rounds [{}] panicked: {}", seq_show(kind, seq), m)),
        Ok(Err((cls, k, what))) => e.violation(&format!("wrapper:{}:{}", name, cls), k + 1, || format!("rounds [{}] :: round {}: {}", seq_show(kind, &seq[..=k]), k, what)),
        Ok(Ok(nt)) => {
            if nt {
                e.nontrivial += 1;
            }
        }
    }
    e.outcome(h64(&(kind, seq)));
    e.checks += n as u64;
    n as u64
}

pub fn run(ctx: &Ctx) -> Vec<Eng> {
    let budget = Budget::secs(if ctx.thorough { 2000 } else { 120 });
    let mut out = Vec::new();
    for kind in 0..3 {
        let name = ["actuator", "encoder", "pid-wrapper"][kind];
        let flags = if kind == 1 { 10 } else { 4 };
        let nsym = NPART * flags;
        let depth_full = if ctx.thorough { 4 } else { 3 };
        let depth_part = if ctx.thorough { 7 } else { 6 };
        let mut e = Eng::new(
            &format!("c20-{}", name),
            match kind {
                0 => "ActuatorWrapper connected to a partner terminal: all sequences of rounds, a round = partner receives one of {nothing, state A/B new, command A/B new, both, state with the same timestamp, state with an older timestamp} x inner settable {accepts, rejects} x inner update {Ok, E2}, then update(wrapper); oracle: the recorded set argument = the combined read taken at the terminal just before (nothing if absent), then exactly one inner update, rejection / inner error returned, terminal never written; non-trivial = terminal saw data",
                1 => "GetterStateDeviceWrapper: rounds = partner option x inner getter {P, P' (negative time, -0, subnormal), N, E1, Z (a re-reported datum: fixed timestamp, zeros whose sign alternates from round to round)} x inner update {Ok, E2}; oracle: exactly one inner update; present state written bit-for-bit with its time into the wrapper's own state slot; absent/error leave it untouched; errors returned; no other slot written; non-trivial = a present state was relayed",
                _ => "PIDWrapper over a recording motor: rounds = partner option x motor {accepts, rejects} x motor update {Ok, E2}; oracle: a stand-alone real CommandPID fed the (time, state, command) the terminal sees each round must output exactly the f32 the motor records (initial time later than the first data, timestamps that stand still or step back included); non-trivial = terminal saw data",
            },
            &format!("all {}^{} sequences over the full alphabet + all {}^{} sequences over the partner options alone", nsym, depth_full, NPART, depth_part),
        );
        par_seqs(&mut e, nsym, depth_full, budget, |seq, e| {
            let a = run_case(kind, seq, e);
            e.sample(|| seq_show(kind, seq));
            a
        });
        par_seqs(&mut e, NPART, depth_part, budget, |seq, e| run_case(kind, seq, e));
        // long histories: full alphabet within 2 deviations; partner options alone within 3
        let (hz, k) = if ctx.thorough { (32, 2) } else { (16, 2) };
        let cases = deviation_cases(hz, nsym - 1, k);
        par_cases(&mut e, &cases, budget, |c, e| {
            // default round: state A new, inner fine (symbol 1)
            let mut seq = vec![1usize; hz];
            for &(p, a) in c {
                seq[p as usize] = if (a as usize) < 1 { 0 } else { a as usize + 1 };
            }
            e.executions += 1;
            e.states += 1;
            e.max_depth = e.max_depth.max(hz as u64);
            e.transitions += run_case(kind, &seq, e);
        });
        {
            // 40 rounds within one deviation of the default round (long runs of identical rounds)
            let cases = deviation_cases(40, nsym - 1, 1);
            par_cases(&mut e, &cases, budget, |c, e| {
                let mut seq = vec![1usize; 40];
                for &(p, a) in c {
                    seq[p as usize] = if (a as usize) < 1 { 0 } else { a as usize + 1 };
                }
                e.executions += 1;
                e.states += 1;
                e.max_depth = e.max_depth.max(40);
                e.transitions += run_case(kind, &seq, e);
            });
        }
        {
            // periodic round sequences: many rejections / errors / silent rounds in a regular pattern
            par_periodic(&mut e, nsym, 2, 32, budget, |seq, e| run_case(kind, seq, e));
            par_periodic(&mut e, NPART, if ctx.thorough { 4 } else { 3 }, 32, budget, |seq, e| run_case(kind, seq, e));
            // long runs around 2^8 / 2^9 rounds
            par_long(&mut e, nsym, 1, &LONG_LENS, budget, |seq, e| run_case(kind, seq, e));
            par_long(&mut e, NPART, 2, &LONG_LENS, budget, |seq, e| run_case(kind, seq, e));
        }
        {
            // the same with a second wrapper of the same kind alive and updated before every update
            par_seqs(&mut e, nsym, depth_full.min(3), budget, |seq, e| run_case_by(kind, seq, e));
            par_seqs(&mut e, NPART, depth_part.min(5), budget, |seq, e| run_case_by(kind, seq, e));
        }
        if ctx.thorough {
            let cases = deviation_cases(hz, NPART - 1, 3);
            par_cases(&mut e, &cases, budget, |c, e| {
                let mut seq = vec![1usize; hz];
                for &(p, a) in c {
                    seq[p as usize] = if (a as usize) < 1 { 0 } else { a as usize + 1 };
                }
                e.executions += 1;
                e.states += 1;
                e.transitions += run_case(kind, &seq, e);
            });
        }
        e.bounds.push_str(&format!("; plus all {}-round sequences within {} deviations of the default round over the full alphabet, all 40-round sequences within 1 deviation{}", hz, k, if ctx.thorough { " and within 3 deviations over the partner options" } else { "" }));
        e.bounds.push_str("; plus all 3-round sequences over the full alphabet and all 5-round sequences over the partner options with a second, independent wrapper of the same kind (own inner object, own terminal, other data) alive and updated before every update of the wrapper under test");
        e.bounds.push_str(&format!("; plus periodic sequences of 32 rounds with at most one deviation: every primitive word of length <= 2 over the full alphabet ({} sequences) and of length <= {} over the partner options ({} sequences)", periodic_count(nsym, 2, 32), if ctx.thorough { 4 } else { 3 }, periodic_count(NPART, if ctx.thorough { 4 } else { 3 }, 32)));
        out.push(e);
    }
    out
}
