//! rrtk-mc: bounded-exhaustive exploration engines for the properties in /verif/properties.jsonl.
//! Usage: rrtk-mc <ID> <quick|thorough> <out.json> [--replay <file>]
//! The binary never decides exit status for the check: it reports every engine's counters
//! and violation classes; /verif/check compares them with known_findings.txt.
#![allow(dead_code)]
#![allow(clippy::all)]
mod env;
mod js;
mod mc;

mod c01;
mod c02;
mod c03;
mod c04;
mod c05;
mod c06;
mod c08;
mod c09;
mod c10;
mod c11;
mod c12;
mod c14;
mod c15;
mod c16;
mod c17;
mod c18;
mod c19;
mod c20;
mod refmodels;

use js::J;
use mc::Eng;
use std::time::Instant;

pub struct Ctx {
    pub thorough: bool,
    pub seed: u64,
    /// C19 trace mode: engines emit canonical section hashes instead of judging.
    pub trace: bool,
}

fn main() {
    let args: Vec<String> = std::env::args().collect();
    if args.len() < 4 {
        eprintln!("usage: rrtk-mc <ID> <quick|thorough> <out.json>");
        std::process::exit(2);
    }
    let id = args[1].as_str();
    let thorough = args[2] == "thorough";
    let seed = std::env::var("VERIF_SEED")
        .ok()
        .and_then(|s| s.parse().ok())
        .unwrap_or(0u64);
    mc::install_quiet_panic_hook();
    let ctx = Ctx {
        thorough,
        seed,
        trace: false,
    };
    let t0 = Instant::now();
    let engines: Vec<Eng> = match id {
        "C01" => c01::run(&ctx),
        "C02" => c02::run(&ctx),
        "C03" => c03::run(&ctx),
        "C04" => c04::run(&ctx),
        "C05" => c05::run(&ctx),
        "C06" => c06::run(&ctx, false),
        "C07" => c06::run(&ctx, true),
        "C08" => c08::run(&ctx, false),
        "C13" => c08::run(&ctx, true),
        "C09" => c09::run(&ctx),
        "C10" => c10::run(&ctx),
        "C11" => c11::run(&ctx),
        "C12" => c12::run(&ctx),
        "C14" => c14::run(&ctx),
        "C15" => c15::run(&ctx),
        "C16" => c16::run(&ctx),
        "C17" => c17::run(&ctx),
        "C18" => c18::run(&ctx),
        "C19" => c19::run(&ctx),
        "C20" => c20::run(&ctx),
        _ => {
            eprintln!("unknown property id {}", id);
            std::process::exit(2);
        }
    };
    let wall = t0.elapsed().as_secs_f64();
    let out = J::obj(vec![
        ("property", J::s(id)),
        ("tier", J::s(&args[2])),
        ("seed", J::I(seed as i128)),
        ("wall_s", J::F(wall)),
        ("engines", J::A(engines.iter().map(|e| e.to_json()).collect())),
    ]);
    std::fs::write(&args[3], out.render()).expect("cannot write result file");
    for e in &engines {
        eprintln!(
            "[{}] states={} transitions={} executions={} nontrivial={} outcomes={} checks={} violations={} caps={:?}",
            e.name,
            e.states,
            e.transitions,
            e.executions,
            e.nontrivial,
            e.outcomes.len(),
            e.checks,
            e.viol.len(),
            e.caps
        );
        for v in e.viol.values() {
            eprintln!("   VIOL key={} count={} :: {}", v.key, v.count, v.detail);
        }
    }
}
