use crate::mc::Eng;
use crate::Ctx;
pub fn run(_ctx: &Ctx) -> Vec<Eng> {
    vec![]
}
