//! C01 — dimensional analysis: unit exponents compose additively, mismatches panic.
use crate::env::*;
use crate::mc::*;
use crate::Ctx;
use rrtk::*;

macro_rules! named {
    ($($n:ident),* $(,)?) => { vec![$((stringify!($n), $n)),*] };
}
pub fn named_units() -> Vec<(&'static str, Unit)> {
    named!(
        INVERSE_MILLIMETER_CUBED_SECOND_CUBED, INVERSE_MILLIMETER_CUBED_SECOND_SQUARED, INVERSE_MILLIMETER_CUBED_SECOND, INVERSE_MILLIMETER_CUBED,
        SECOND_PER_MILLIMETER_CUBED, SECOND_SQUARED_PER_MILLIMETER_CUBED, SECOND_CUBED_PER_MILLIMETER_CUBED,
        INVERSE_MILLIMETER_SQUARED_SECOND_CUBED, INVERSE_MILLIMETER_SQUARED_SECOND_SQUARED, INVERSE_MILLIMETER_SQUARED_SECOND, INVERSE_MILLIMETER_SQUARED,
        SECOND_PER_MILLIMETER_SQUARED, SECOND_SQUARED_PER_MILLIMETER_SQUARED, SECOND_CUBED_PER_MILLIMETER_SQUARED,
        INVERSE_MILLIMETER_SECOND_CUBED, INVERSE_MILLIMETER_SECOND_SQUARED, INVERSE_MILLIMETER_SECOND, INVERSE_MILLIMETER,
        SECOND_PER_MILLIMETER, SECOND_SQUARED_PER_MILLIMETER, SECOND_CUBED_PER_MILLIMETER,
        INVERSE_SECOND_CUBED, INVERSE_SECOND_SQUARED, INVERSE_SECOND, DIMENSIONLESS, SECOND, SECOND_SQUARED, SECOND_CUBED,
        MILLIMETER_PER_SECOND_CUBED, MILLIMETER_PER_SECOND_SQUARED, MILLIMETER_PER_SECOND, MILLIMETER, MILLIMETER_SECOND, MILLIMETER_SECOND_SQUARED, MILLIMETER_SECOND_CUBED,
        MILLIMETER_SQUARED_PER_SECOND_CUBED, MILLIMETER_SQUARED_PER_SECOND_SQUARED, MILLIMETER_SQUARED_PER_SECOND, MILLIMETER_SQUARED, MILLIMETER_SQUARED_SECOND, MILLIMETER_SQUARED_SECOND_SQUARED, MILLIMETER_SQUARED_SECOND_CUBED,
        MILLIMETER_CUBED_PER_SECOND_CUBED, MILLIMETER_CUBED_PER_SECOND_SQUARED, MILLIMETER_CUBED_PER_SECOND, MILLIMETER_CUBED, MILLIMETER_CUBED_SECOND, MILLIMETER_CUBED_SECOND_SQUARED, MILLIMETER_CUBED_SECOND_CUBED,
    )
}
/// exponents stated by a constant's name (INVERSE_/PER/SQUARED/CUBED grammar)
pub fn parse_name(name: &str) -> (i32, i32) {
    if name == "DIMENSIONLESS" {
        return (0, 0);
    }
    let toks: Vec<&str> = name.split('_').collect();
    let (mut m, mut s) = (0, 0);
    let mut sign = 1;
    let mut i = 0;
    while i < toks.len() {
        match toks[i] {
            "INVERSE" | "PER" => sign = -1,
            base @ ("MILLIMETER" | "SECOND") => {
                let mut exp = 1;
                if i + 1 < toks.len() {
                    if toks[i + 1] == "SQUARED" {
                        exp = 2;
                        i += 1;
                    } else if toks[i + 1] == "CUBED" {
                        exp = 3;
                        i += 1;
                    }
                }
                if base == "MILLIMETER" {
                    m += sign * exp
                } else {
                    s += sign * exp
                }
            }
            other => panic!("unexpected token {} in unit constant name {}", other, name),
        }
        i += 1;
    }
    (m, s)
}

pub const VALS: [f32; 12] = [0.0, -0.0, 1.0, -1.5, 0.1, 7e6, -2.5e-7, f32::MAX, f32::MIN_POSITIVE, 1e-40, 3.0, -1024.0];

fn feq(a: f32, b: f32) -> bool {
    a.to_bits() == b.to_bits() || (a.is_nan() && b.is_nan())
}

#[derive(Clone, Copy, PartialEq, Debug)]
enum UExp {
    Same,  // unit of the left operand, panics on mismatch
    Add,   // exponents add
    Sub,   // exponents subtract
    Keep,  // unary: unchanged
}

fn uq(m: i32, s: i32) -> Unit {
    Unit::new(m as i8, s as i8)
}

/// One operator form on (Quantity, Quantity): returns the resulting Quantity.
type QOp = (&'static str, UExp, fn(Quantity, Quantity) -> Quantity, fn(f32, f32) -> f32);
fn qops() -> Vec<QOp> {
    vec![
        ("q+q", UExp::Same, |a, b| a + b, |x, y| x + y),
        ("q-q", UExp::Same, |a, b| a - b, |x, y| x - y),
        ("q*q", UExp::Add, |a, b| a * b, |x, y| x * y),
        ("q/q", UExp::Sub, |a, b| a / b, |x, y| x / y),
        ("q+=q", UExp::Same, |mut a, b| { a += b; a }, |x, y| x + y),
        ("q-=q", UExp::Same, |mut a, b| { a -= b; a }, |x, y| x - y),
        ("q*=q", UExp::Add, |mut a, b| { a *= b; a }, |x, y| x * y),
        ("q/=q", UExp::Sub, |mut a, b| { a /= b; a }, |x, y| x / y),
    ]
}
type UOp = (&'static str, UExp, fn(Unit, Unit) -> Unit);
fn uops() -> Vec<UOp> {
    vec![
        ("u+u", UExp::Same, |a, b| a + b),
        ("u-u", UExp::Same, |a, b| a - b),
        ("u*u", UExp::Add, |a, b| a * b),
        ("u/u", UExp::Sub, |a, b| a / b),
        ("u+=u", UExp::Same, |mut a, b| { a += b; a }),
        ("u-=u", UExp::Same, |mut a, b| { a -= b; a }),
        ("u*=u", UExp::Add, |mut a, b| { a *= b; a }),
        ("u/=u", UExp::Sub, |mut a, b| { a /= b; a }),
    ]
}

fn expect_unit(k: UExp, a: (i32, i32), b: (i32, i32)) -> (i32, i32) {
    match k {
        UExp::Same | UExp::Keep => a,
        UExp::Add => (a.0 + b.0, a.1 + b.1),
        UExp::Sub => (a.0 - b.0, a.1 - b.1),
    }
}

fn check_pair(e: &mut Eng, a: (i32, i32), b: (i32, i32), vals: &[(f32, f32)]) {
    let (ua, ub) = (uq(a.0, a.1), uq(b.0, b.1));
    let differ = a != b;
    let checked = cfg!(feature = "dimcheck");
    if differ {
        e.nontrivial += 1;
    }
    for (name, k, f, raw) in qops() {
        let must_panic = checked && k == UExp::Same && differ;
        for &(x, y) in vals {
            e.executions += 1;
            e.transitions += 1;
            let r = guard(|| f(Quantity::new(x, ua), Quantity::new(y, ub)));
            match (r, must_panic) {
                (Err(_), true) => {}
                (Err(m), false) => e.violation(&format!("units:{}:unexpected-panic", name), 1, || format!("{:?} {} {:?} with values ({:?}, {:?}) panicked: {}", a, name, b, x, y, m)),
                (Ok(q), true) => e.violation(&format!("units:{}:mismatch-not-rejected", name), 1, || format!("{:?} {} {:?} returned {:?} although the units differ", a, name, b, q)),
                (Ok(q), false) => {
                    e.checks += 1;
                    let want_u = expect_unit(k, a, b);
                    if checked && unit_exps(q.unit) != want_u {
                        e.violation(&format!("units:{}:result-unit", name), 1, || format!("{:?} {} {:?} gave unit {:?}, expected exponents {:?}", a, name, b, unit_exps(q.unit), want_u));
                    }
                    if !feq(q.value, raw(x, y)) {
                        e.violation(&format!("units:{}:value", name), 1, || format!("{:?} {} {:?}: value {:?} but the raw f32 operator gives {:?}", a, name, b, q.value, raw(x, y)));
                    }
                }
            }
            if must_panic && x != vals[0].0 {
                break; // a panic does not depend on the values: two value pairs are enough
            }
        }
    }
    // ordering
    // (with differing units a panic must not depend on the values: two value pairs, plus every pair
    // of *equal* values - where a comparison could be answered without looking at the units)
    for (vi, &(x, y)) in vals.iter().enumerate() {
        if differ && vi >= 2 && x != y {
            continue;
        }
        let (qa, qb) = (Quantity::new(x, ua), Quantity::new(y, ub));
        let forms: [(&str, Box<dyn Fn() -> Option<i8>>); 5] = [
            ("partial_cmp", Box::new(move || qa.partial_cmp(&qb).map(|o| o as i8))),
            ("<", Box::new(move || Some((qa < qb) as i8))),
            (">", Box::new(move || Some((qa > qb) as i8))),
            ("<=", Box::new(move || Some((qa <= qb) as i8))),
            (">=", Box::new(move || Some((qa >= qb) as i8))),
        ];
        for (name, f) in forms.iter() {
            e.executions += 1;
            e.transitions += 1;
            let r = guard(|| f());
            let must_panic = checked && differ;
            let want = match *name {
                "partial_cmp" => x.partial_cmp(&y).map(|o| o as i8),
                "<" => Some((x < y) as i8),
                ">" => Some((x > y) as i8),
                "<=" => Some((x <= y) as i8),
                _ => Some((x >= y) as i8),
            };
            match (r, must_panic) {
                (Err(_), true) => {}
                (Err(m), false) => e.violation(&format!("units:{}:unexpected-panic", name), 1, || format!("{:?} {} {:?} panicked: {}", a, name, b, m)),
                (Ok(_), true) => e.violation(&format!("units:{}:mismatch-not-rejected", name), 1, || format!("ordering {:?} {} {:?} did not panic although the units differ", a, name, b)),
                (Ok(v), false) => {
                    e.checks += 1;
                    if v != want {
                        e.violation(&format!("units:{}:value", name), 1, || format!("{:?} {} {:?} on ({:?},{:?}) gave {:?}, raw f32 gives {:?}", a, name, b, x, y, v, want));
                    }
                }
            }
        }
    }
    // bare units behave like the units of quantities
    for (name, k, f) in uops() {
        e.executions += 1;
        e.transitions += 1;
        let must_panic = checked && k == UExp::Same && differ;
        let r = guard(|| f(ua, ub));
        match (r, must_panic) {
            (Err(_), true) => {}
            (Err(m), false) => e.violation(&format!("units:{}:unexpected-panic", name), 1, || format!("{:?} {} {:?} panicked: {}", a, name, b, m)),
            (Ok(u), true) => e.violation(&format!("units:{}:mismatch-not-rejected", name), 1, || format!("{:?} {} {:?} returned {:?}", a, name, b, u)),
            (Ok(u), false) => {
                e.checks += 1;
                if checked && unit_exps(u) != expect_unit(k, a, b) {
                    e.violation(&format!("units:{}:result-unit", name), 1, || format!("{:?} {} {:?} gave {:?}", a, name, b, unit_exps(u)));
                }
            }
        }
    }
    // equality helpers agree with the exponents
    if checked {
        e.checks += 1;
        let eqs = [ua.eq_assume_true(&ub), ua.eq_assume_false(&ub)];
        #[cfg(feature = "dimcheck")]
        let eqs2 = [ua.const_eq(&ub), ua == ub];
        #[cfg(not(feature = "dimcheck"))]
        let eqs2 = [!differ, !differ];
        if eqs.iter().chain(eqs2.iter()).any(|&x| x == differ) {
            e.violation("units:equality", 1, || format!("{:?} vs {:?}: eq_assume_true/eq_assume_false/const_eq/== give {:?} {:?}", a, b, eqs, eqs2));
        }
        let r1 = guard(|| ua.assert_eq_assume_ok(&ub)).is_err();
        let r2 = guard(|| ua.assert_eq_assume_not_ok(&ub)).is_err();
        if r1 != differ || r2 != differ {
            e.violation("units:assert-equality", 1, || format!("{:?} vs {:?}: assert_eq_assume_ok panicked={} assert_eq_assume_not_ok panicked={}", a, b, r1, r2));
        }
    }
    e.outcome(h64(&(a, b)));
}

fn unary(e: &mut Eng, a: (i32, i32)) {
    let ua = uq(a.0, a.1);
    for &x in &VALS {
        e.executions += 1;
        e.transitions += 2;
        e.checks += 2;
        let q = Quantity::new(x, ua);
        let n = -q;
        let ab = q.abs();
        let checked = cfg!(feature = "dimcheck");
        if (checked && (unit_exps(n.unit) != a || unit_exps(ab.unit) != a)) || !feq(n.value, -x) || ab.value != x.abs() {
            e.violation("units:unary", 1, || format!("{:?} value {:?}: neg -> {:?}, abs -> {:?}", a, x, n, ab));
        }
        if checked && unit_exps(-ua) != a {
            e.violation("units:unary", 1, || format!("-{:?} on a bare unit", a));
        }
    }
}

/// mixed operators with Time (acts as SECOND) and DimensionlessInteger (acts as DIMENSIONLESS)
fn mixed(e: &mut Eng, a: (i32, i32)) {
    let times = [Time(2_000_000_000), Time(-3), Time(0), Time(123_456_789_012)];
    let ints = [DimensionlessInteger(2), DimensionlessInteger(-7), DimensionlessInteger(0), DimensionlessInteger(16_777_217)];
    mixed_with(e, a, &[1.5f32, -0.1, 0.0, 7e6], &times, &ints);
}
/// Dense sweep of the *relation* between the two operands of a mixed operator: the Quantity is the
/// converted Time / integer operand times r, for every r of a ratio grid (2^(i/16) over 2^-4..2^4
/// plus 1 +- 2^-k, k = 3..20: nearly equal, but not equal, operands included), in the unit in
/// which the additive forms are legal.
pub fn mixed_sweep(e: &mut Eng) {
    let grid = ratio_grid(16, 4);
    for t in [Time(37_421_300_000), Time(-100_000_000_000), Time(7_000_000)] {
        let base = Quantity::from(t).value as f64;
        let xs: Vec<f32> = grid.iter().map(|r| (base * r) as f32).collect();
        mixed_with(e, (0, 1), &xs, &[t], &[]);
    }
    for i in [DimensionlessInteger(37), DimensionlessInteger(-1000)] {
        let xs: Vec<f32> = grid.iter().map(|r| (i.0 as f64 * r) as f32).collect();
        mixed_with(e, (0, 0), &xs, &[], &[i]);
    }
    // operands whose integer parts agree in their low 32 / 16 bits, consecutively: an operator is a
    // pure function of its operands, whatever was converted just before
    for b in [1_000_000_000i64, -3, 1_500_000_000, 123_456_789_012] {
        for d in [1i64 << 32, -(1i64 << 32), 1 << 16] {
            mixed_with(e, (0, 1), &[1.5], &[Time(b), Time(b + d), Time(b), Time(b + 2 * d)], &[]);
            mixed_with(e, (0, 0), &[1.5], &[], &[DimensionlessInteger(b), DimensionlessInteger(b + d), DimensionlessInteger(b)]);
        }
    }
}
fn mixed_with(e: &mut Eng, a: (i32, i32), xs: &[f32], times: &[Time], ints: &[DimensionlessInteger]) {
    let ua = uq(a.0, a.1);
    let checked = cfg!(feature = "dimcheck");
    macro_rules! case {
        ($name:expr, $k:expr, $other:expr, $real:expr, $conv:expr) => {{
            e.executions += 1;
            e.transitions += 1;
            let other_u: (i32, i32) = $other;
            let k: UExp = $k;
            let must_panic = checked && k == UExp::Same && a != other_u;
            let r: Result<Quantity, String> = guard(|| $real);
            let c: Result<Quantity, String> = guard(|| $conv);
            match (&r, must_panic) {
                (Err(_), true) => {
                    if c.is_ok() {
                        e.violation(&format!("units:mixed:{}:panic-differs", $name), 1, || format!("unit {:?}: the mixed operator panicked but the converted Quantity operator did not", a));
                    }
                }
                (Err(m), false) => e.violation(&format!("units:mixed:{}:unexpected-panic", $name), 1, || format!("unit {:?}: {}", a, m)),
                (Ok(q), true) => e.violation(&format!("units:mixed:{}:mismatch-not-rejected", $name), 1, || format!("unit {:?}: returned {:?}", a, q)),
                (Ok(q), false) => {
                    e.checks += 1;
                    let want = expect_unit(k, a, other_u);
                    let want = if $name.starts_with("t") || $name.starts_with("i") { match k { UExp::Same => other_u, UExp::Add => (other_u.0 + a.0, other_u.1 + a.1), UExp::Sub => (other_u.0 - a.0, other_u.1 - a.1), UExp::Keep => a } } else { want };
                    if checked && unit_exps(q.unit) != want {
                        e.violation(&format!("units:mixed:{}:result-unit", $name), 1, || format!("unit {:?}: result unit {:?}, expected {:?}", a, unit_exps(q.unit), want));
                    }
                    match &c {
                        Ok(cq) => {
                            if !feq(cq.value, q.value) || unit_exps(cq.unit) != unit_exps(q.unit) {
                                e.violation(&format!("units:mixed:{}:differs-from-converted", $name), 1, || format!("unit {:?}: mixed operator gives {:?} but the Quantity operator on converted operands gives {:?}", a, q, cq));
                            }
                        }
                        Err(m) => e.violation(&format!("units:mixed:{}:panic-differs", $name), 1, || format!("unit {:?}: converted form panicked ({}) but the mixed operator returned {:?}", a, m, q)),
                    }
                }
            }
        }};
    }
    let sec = (0, 1);
    let dl = (0, 0);
    for &x in xs {
        let q = Quantity::new(x, ua);
        for &t in times {
            let tq = Quantity::from(t);
            if !crate::c18::time_to_quantity_ok(t.0, tq.value) {
                e.violation("units:mixed:time-operand-conversion", 1, || format!("Quantity::from({:?}) = {:?}: the Time operand of a mixed operator counts as nanoseconds/1e9 seconds", t, tq.value));
            }
            case!("q+t", UExp::Same, sec, q + t, q + tq);
            case!("q-t", UExp::Same, sec, q - t, q - tq);
            case!("q*t", UExp::Add, sec, q * t, q * tq);
            case!("q/t", UExp::Sub, sec, q / t, q / tq);
            case!("q+=t", UExp::Same, sec, { let mut z = q; z += t; z }, q + tq);
            case!("q-=t", UExp::Same, sec, { let mut z = q; z -= t; z }, q - tq);
            case!("q*=t", UExp::Add, sec, { let mut z = q; z *= t; z }, q * tq);
            case!("q/=t", UExp::Sub, sec, { let mut z = q; z /= t; z }, q / tq);
            case!("t+q", UExp::Same, sec, t + q, tq + q);
            case!("t-q", UExp::Same, sec, t - q, tq - q);
            case!("t*q", UExp::Add, sec, t * q, tq * q);
            case!("t/q", UExp::Sub, sec, t / q, tq / q);
        }
        for &i in ints {
            let iq = Quantity::from(i);
            if iq.value.to_bits() != (i.0 as f32).to_bits() {
                e.violation("units:mixed:integer-operand-conversion", 1, || format!("Quantity::from({:?}) = {:?}", i, iq.value));
            }
            case!("q+i", UExp::Same, dl, q + i, q + iq);
            case!("q-i", UExp::Same, dl, q - i, q - iq);
            case!("q*i", UExp::Add, dl, q * i, q * iq);
            case!("q/i", UExp::Sub, dl, q / i, q / iq);
            case!("q+=i", UExp::Same, dl, { let mut z = q; z += i; z }, q + iq);
            case!("q-=i", UExp::Same, dl, { let mut z = q; z -= i; z }, q - iq);
            case!("q*=i", UExp::Add, dl, { let mut z = q; z *= i; z }, q * iq);
            case!("q/=i", UExp::Sub, dl, { let mut z = q; z /= i; z }, q / iq);
            case!("i+q", UExp::Same, dl, i + q, iq + q);
            case!("i-q", UExp::Same, dl, i - q, iq - q);
            case!("i*q", UExp::Add, dl, i * q, iq * q);
            case!("i/q", UExp::Sub, dl, i / q, iq / q);
        }
    }
    e.outcome(h64(&a));
}

pub fn mixed_pub(e: &mut Eng, a: (i32, i32)) {
    mixed(e, a)
}

fn time_int_products(e: &mut Eng) {
    let times = [Time(2_000_000_000), Time(-3), Time(1), Time(123_456_789_012)];
    let ints = [DimensionlessInteger(2), DimensionlessInteger(-7), DimensionlessInteger(16_777_217)];
    let checked = cfg!(feature = "dimcheck");
    for &a in &times {
        for &b in &times {
            e.executions += 2;
            e.checks += 2;
            let m = a * b;
            let d = a / b;
            let (qa, qb) = (Quantity::from(a), Quantity::from(b));
            if !feq(m.value, (qa * qb).value) || (checked && unit_exps(m.unit) != (0, 2)) {
                e.violation("units:mixed:t*t", 1, || format!("{:?} * {:?} = {:?}", a, b, m));
            }
            if !feq(d.value, (qa / qb).value) || (checked && unit_exps(d.unit) != (0, 0)) {
                e.violation("units:mixed:t/t", 1, || format!("{:?} / {:?} = {:?}", a, b, d));
            }
        }
        for &i in &ints {
            e.executions += 1;
            e.checks += 1;
            let d = i / a;
            if !feq(d.value, (Quantity::from(i) / Quantity::from(a)).value) || (checked && unit_exps(d.unit) != (0, -1)) {
                e.violation("units:mixed:i/t", 1, || format!("{:?} / {:?} = {:?}", i, a, d));
            }
        }
    }
}

fn constants_and_conversions(e: &mut Eng) {
    let table = named_units();
    // cross-check the table against the source
    let src = std::fs::read_to_string("/repo/src/dimensions/constants.rs").expect("cannot read constants.rs");
    let in_source: Vec<&str> = src.lines().filter_map(|l| l.strip_prefix("pub const ")).filter(|l| l.contains(": Unit")).map(|l| l.split(':').next().unwrap()).collect();
    for n in &in_source {
        if !table.iter().any(|(t, _)| t == n) {
            panic!("unit constant {} exists in the source but not in the harness table", n);
        }
    }
    e.count("named_constants_in_source", in_source.len() as i128);
    e.count("named_constants_in_table", table.len() as i128);
    let checked = cfg!(feature = "dimcheck");
    let mut seen = std::collections::HashSet::new();
    for (name, u) in &table {
        e.executions += 1;
        e.states += 1;
        e.checks += 1;
        e.nontrivial += 1;
        let want = parse_name(name);
        seen.insert(want);
        if checked && (unit_exps(*u) != want || unit_exps_debug(*u).map(|d| d != want).unwrap_or(false)) {
            e.violation("units:named-constant", 1, || format!("{} has exponents {:?} but its name states {:?}", name, unit_exps(*u), want));
        }
        e.outcome(h64(&want));
    }
    if seen.len() != 49 {
        e.violation("units:named-constant", 1, || format!("the named constants cover {} distinct exponent pairs, expected all 49 of [-3,3]^2", seen.len()));
    }
    // position derivative <-> unit, command <-> quantity, piece -> unit
    let pds = [(PositionDerivative::Position, (1, 0)), (PositionDerivative::Velocity, (1, -1)), (PositionDerivative::Acceleration, (1, -2))];
    for (pd, ex) in pds {
        e.executions += 1;
        e.checks += 1;
        if checked && unit_exps(Unit::from(pd)) != ex {
            e.violation("units:position-derivative", 1, || format!("Unit::from({:?}) = {:?}", pd, unit_exps(Unit::from(pd))));
        }
        let c = Command::new(pd, 2.5);
        let qc = Quantity::from(c);
        if qc.value != 2.5 || (checked && unit_exps(qc.unit) != ex) {
            e.violation("units:command-to-quantity", 1, || format!("Quantity::from({:?}) = {:?}", c, qc));
        }
    }
    #[cfg(feature = "dimcheck")]
    for m in -3..=3 {
        for s in -3..=3 {
            e.executions += 1;
            e.checks += 2;
            let u = uq(m, s);
            let want = pds.iter().find(|(_, ex)| *ex == (m, s)).map(|(p, _)| *p);
            let got = PositionDerivative::try_from(u).ok();
            if got != want {
                e.violation("units:position-derivative", 1, || format!("PositionDerivative::try_from(unit {:?}) = {:?}, expected {:?}", (m, s), got, want));
            }
            let gc = Command::try_from(Quantity::new(4.0, u)).ok();
            let wc = want.map(|p| Command::new(p, 4.0));
            if gc != wc {
                e.violation("units:command-from-quantity", 1, || format!("Command::try_from(4.0 with unit {:?}) = {:?}, expected {:?}", (m, s), gc, wc));
            }
        }
    }
    for (piece, ex) in [
        (MotionProfilePiece::BeforeStart, None),
        (MotionProfilePiece::InitialAcceleration, Some((1, -2))),
        (MotionProfilePiece::ConstantVelocity, Some((1, -1))),
        (MotionProfilePiece::EndAcceleration, Some((1, -2))),
        (MotionProfilePiece::Complete, None),
    ] {
        e.executions += 1;
        e.checks += 1;
        let got = Unit::try_from(piece).ok();
        let bad = match (got, ex) {
            (None, None) => false,
            (Some(u), Some(x)) => checked && unit_exps(u) != x,
            _ => true,
        };
        if bad {
            e.violation("units:piece-to-unit", 1, || format!("Unit::try_from({:?}) = {:?}", piece, got.map(unit_exps)));
        }
    }
    e.sample(|| "MILLIMETER_SQUARED_PER_SECOND_CUBED: name states (2,-3)".to_string());
}

/// structured f32 alphabet: every exponent x a few mantissa patterns x both signs (incl. subnormals)
fn value_grid(per_exp: &[u32]) -> Vec<f32> {
    let mut v = Vec::new();
    for ex in 0u32..=254 {
        for &m in per_exp {
            for sign in [0u32, 1] {
                v.push(f32::from_bits((sign << 31) | (ex << 23) | (m & 0x7f_ffff)));
            }
        }
    }
    v
}
fn value_sweep(e: &mut Eng, thorough: bool, budget: Budget) {
    let mants: Vec<u32> = if thorough { vec![0, 1, 0x7f_ffff, 0x40_0000, 0x2a_aaaa, 0x55_5555, 0x00_0100, 0x7f_ff00] } else { vec![0, 1, 0x7f_ffff, 0x2a_aaaa] };
    let vals = value_grid(&mants);
    let n = vals.len() as u64;
    let u = MILLIMETER_PER_SECOND;
    let w = INVERSE_SECOND_SQUARED;
    par(e, n * n, 1 << 14, budget, |idx, e| {
        let (x, y) = (vals[(idx / n) as usize], vals[(idx % n) as usize]);
        e.executions += 1;
        e.transitions += 8;
        e.checks += 1;
        if idx % n == 0 {
            e.states += n;
        }
        let (a, b, c) = (Quantity::new(x, u), Quantity::new(y, u), Quantity::new(y, w));
        let mut p = a;
        p += b;
        let mut q = a;
        q *= c;
        let ok = feq((a + b).value, x + y) && feq((a - b).value, x - y) && feq((a * c).value, x * y) && feq((a / c).value, x / y) && feq(p.value, x + y) && feq(q.value, x * y) && feq((-a).value, -x) && a.abs().value == x.abs() && a.partial_cmp(&b) == x.partial_cmp(&y);
        if !ok {
            e.violation("units:value-sweep", 1, || format!("values {:?} and {:?}: a Quantity operator does not give the raw f32 result", x, y));
        }
        if x.is_finite() && y.is_finite() && (x + y).is_finite() {
            e.nontrivial += 1;
        }
        if idx % 1_000_003 == 0 {
            e.outcome(h64(&(x.to_bits(), y.to_bits())));
            e.sample(|| format!("{:?} (+,-,*,/,+=,*=,neg,abs,cmp) {:?}", x, y));
        }
    });
}

/// Every ordered pair of units with exponents in [-60,60]^2 (14641^2 = 2.1e8 pairs): the equality
/// helpers must agree with the exponents, products and quotients must add / subtract them.
/// (Add/Sub/ordering panic exactly when assert_eq_assume_ok does, which is checked here too for the
/// pairs the crate calls equal.)
fn full_domain(e: &mut Eng, budget: Budget) {
    if !cfg!(feature = "dimcheck") {
        return;
    }
    let n: i64 = 121;
    let total = (n * n) as u64;
    par(e, total * total, 1 << 16, budget, |idx, e| {
        let (ia, ib) = ((idx / total) as i64, (idx % total) as i64);
        let a = ((ia / n - 60) as i32, (ia % n - 60) as i32);
        let b = ((ib / n - 60) as i32, (ib % n - 60) as i32);
        let (ua, ub) = (uq(a.0, a.1), uq(b.0, b.1));
        e.executions += 1;
        e.transitions += 3;
        if ib == 0 {
            e.states += total;
        }
        let same = a == b;
        let said = ua.eq_assume_true(&ub);
        if said != same || ua.eq_assume_false(&ub) != same {
            e.violation("units:equality", 1, || format!("{:?} vs {:?}: eq_assume_true = {}, eq_assume_false = {}", a, b, said, ua.eq_assume_false(&ub)));
        }
        if said && !same {
            e.violation("units:q+q:mismatch-not-rejected", 1, || format!("{:?} + {:?} is not rejected: the unit equality check calls them equal", a, b));
        }
        if !same {
            e.nontrivial += 1;
        }
        let (m, d) = (ua * ub, ua / ub);
        if unit_exps(m) != (a.0 + b.0, a.1 + b.1) || unit_exps(d) != (a.0 - b.0, a.1 - b.1) {
            e.violation("units:u*u:result-unit", 1, || format!("{:?} * or / {:?} gave {:?} / {:?}", a, b, unit_exps(m), unit_exps(d)));
        }
        if idx % 50_000_017 == 0 {
            e.outcome(h64(&(a, b)));
            e.sample(|| format!("{:?} vs {:?}", a, b));
        }
    });
}

pub fn axis(extended: bool) -> Vec<i32> {
    if extended {
        vec![-60, -31, -4, -3, -2, -1, 0, 1, 2, 3, 4, 31, 60]
    } else {
        vec![-3, -2, -1, 0, 1, 2, 3]
    }
}

pub fn run(ctx: &Ctx) -> Vec<Eng> {
    let budget = Budget::secs(if ctx.thorough { 2000 } else { 120 });
    let mut allvals = Vec::new();
    for &x in &VALS {
        for &y in &VALS {
            allvals.push((x, y));
        }
    }
    let fewvals = vec![(1.5f32, -0.1f32), (f32::MAX, f32::MAX), (0.0, -0.0), (7e6, 1e-40)];
    let mut e1 = Eng::new(
        "c01-grid-pairs",
        "all ordered pairs of the 49 grid units x every Quantity operator form (+ - * / and assign forms, partial_cmp < > <= >=) x all 144 ordered pairs of a 12-value f32 alphabet (incl. +-0, MAX, MIN_POSITIVE, a subnormal); same operators on bare units; equality helpers; oracle: result unit = exponent arithmetic (read from the representation, independent of the crate's equality code), value bit-equal to the raw f32 operator, panic <=> add/sub/ordering with differing units; non-trivial = the two units differ",
        "49 x 49 unit pairs",
    );
    e1.notes.push(unit_mode());
    let ax = axis(false);
    let mut pairs: Vec<((i32, i32), (i32, i32))> = Vec::new();
    for &m1 in &ax {
        for &s1 in &ax {
            for &m2 in &ax {
                for &s2 in &ax {
                    pairs.push(((m1, s1), (m2, s2)));
                }
            }
        }
    }
    par_cases(&mut e1, &pairs, budget, |(a, b), e| {
        e.states += 1;
        check_pair(e, *a, *b, &allvals);
    });
    e1.sample(|| "(1,-1) q+q (0,-1) with (1.5,-0.1): must panic; (2,-3) q/q (-1,1): unit (3,-4)".to_string());
    let mut e2 = Eng::new(
        "c01-extended-pairs",
        "all ordered pairs of units with exponents on the extended axis {-60,-31,-4..4,31,60} (sums stay inside i8), 4 value pairs; same oracle",
        "169 x 169 unit pairs",
    );
    let axe = axis(true);
    let mut pairs2 = Vec::new();
    let stride = if ctx.thorough { 1 } else { 1 };
    for &m1 in &axe {
        for &s1 in &axe {
            for &m2 in &axe {
                for &s2 in &axe {
                    pairs2.push(((m1, s1), (m2, s2)));
                }
            }
        }
    }
    let _ = stride;
    par_cases(&mut e2, &pairs2, budget, |(a, b), e| {
        e.states += 1;
        check_pair(e, *a, *b, &fewvals);
    });
    e2.sample(|| "(60,-31) q*q (60,31): unit (120,0)".to_string());
    let mut e3 = Eng::new(
        "c01-unary-mixed-constants",
        "neg/abs on 169 units x 12 values; every mixed operator form of the three implementation tables (Quantity with Time / DimensionlessInteger on either side, assign forms, Time*Time, Time/Time, DimensionlessInteger/Time) on 169 units x 4 values x 4 integer operands, compared with the Quantity operator on converted operands (value bits, unit, panic behaviour); the 49 named constants against an independent parser of their names (table cross-checked with the source); PositionDerivative/Command/MotionProfilePiece conversions over all kinds and all 49 units",
        "",
    );
    for &m in &axe {
        for &s in &axe {
            e3.states += 1;
            if (m, s) != (0, 1) && (m, s) != (0, 0) {
                e3.nontrivial += 1;
            }
            unary(&mut e3, (m, s));
            mixed(&mut e3, (m, s));
        }
    }
    mixed_sweep(&mut e3);
    time_int_products(&mut e3);
    constants_and_conversions(&mut e3);
    let mut e4 = Eng::new(
        "c01-value-sweep",
        "numeric part over a structured sweep of the f32 domain: every exponent (incl. subnormals) x 4 (thorough 8) mantissa patterns x both signs, all ordered pairs, through + - * / += *= neg abs partial_cmp on correctly dimensioned quantities: bit-equal to the raw f32 operators; non-trivial = both operands and their sum finite",
        if ctx.thorough { "4080 x 4080 value pairs" } else { "2040 x 2040 value pairs" },
    );
    value_sweep(&mut e4, ctx.thorough, budget);
    let mut e5 = Eng::new(
        "c01-full-exponent-domain",
        "EVERY ordered pair of units with exponents in [-60,60]^2 (14641^2 = 214 358 881 pairs): eq_assume_true / eq_assume_false agree with the exponents (so add, sub and ordering reject exactly the differing pairs), Unit*Unit and Unit/Unit add and subtract the exponents; non-trivial = the units differ",
        "121^2 x 121^2 pairs",
    );
    full_domain(&mut e5, budget);
    vec![e1, e2, e3, e4, e5]
}
