use crate::mc::Eng;
use crate::Ctx;
pub fn run(_ctx: &Ctx, _second: bool) -> Vec<Eng> {
    vec![]
}
