//! C06 — motion profile accessors agree with each other at every instant.
//! C07 — the profile is a valid trapezoid: continuous, within limits, reaches the goal.
use crate::env::*;
use crate::mc::*;
use crate::Ctx;
use rrtk::*;

#[derive(Clone, Copy, Debug)]
pub struct Spec {
    p0: f32,
    v0: f32,
    p1: f32,
    v1: f32,
    a1: f32,
    vmax: f32, // as passed (may be negative: the constructor takes the magnitude)
    amax: f32,
}
impl Spec {
    fn build(&self) -> MotionProfile {
        MotionProfile::new(
            State::new_raw(self.p0, self.v0, 0.0),
            State::new_raw(self.p1, self.v1, self.a1),
            Quantity::new(self.vmax, MILLIMETER_PER_SECOND),
            Quantity::new(self.amax, MILLIMETER_PER_SECOND_SQUARED),
        )
    }
    fn mirror(&self) -> Spec {
        Spec { p0: -self.p0, v0: -self.v0, p1: -self.p1, v1: -self.v1, a1: -self.a1, ..*self }
    }
}

fn rank(p: MotionProfilePiece) -> u8 {
    match p {
        MotionProfilePiece::BeforeStart => 0,
        MotionProfilePiece::InitialAcceleration => 1,
        MotionProfilePiece::ConstantVelocity => 2,
        MotionProfilePiece::EndAcceleration => 3,
        MotionProfilePiece::Complete => 4,
    }
}

/// phase boundaries read from the derived Debug output (they are private fields)
pub fn debug_times(mp: &MotionProfile) -> Option<[i64; 3]> {
    let s = format!("{:?}", mp);
    let mut out = [0i64; 3];
    for (i, key) in ["t1: Time(", "t2: Time(", "t3: Time("].iter().enumerate() {
        let p = s.find(key)? + key.len();
        let rest = &s[p..];
        let end = rest.find(')')?;
        out[i] = rest[..end].parse().ok()?;
    }
    Some(out)
}
/// phase boundaries recovered through the public API only: smallest t >= 0 whose piece has rank > i
fn bisect_times(mp: &MotionProfile) -> [i64; 3] {
    let mut out = [0i64; 3];
    for i in 0..3 {
        let want = i as u8 + 2;
        let (mut lo, mut hi) = (-1i64, i64::MAX); // rank(lo) < want <= rank(hi)
        if rank(mp.get_piece(Time(hi))) < want {
            out[i] = i64::MAX;
            continue;
        }
        while (hi as i128) - (lo as i128) > 1 {
            let mid = ((lo as i128 + hi as i128) / 2) as i64;
            if rank(mp.get_piece(Time(mid))) >= want {
                hi = mid;
            } else {
                lo = mid;
            }
        }
        out[i] = hi;
    }
    out
}

fn q(o: Option<Quantity>) -> Option<f32> {
    o.map(|x| x.value)
}

#[derive(Clone, Copy, Debug, PartialEq)]
pub struct At {
    t: i64,
    piece: u8,
    mode: Option<u8>,
    acc: Option<f32>,
    vel: Option<f32>,
    pos: Option<f32>,
    hist: Option<(i64, u8, u32)>,
}
fn kind_code(p: PositionDerivative) -> u8 {
    match p {
        PositionDerivative::Position => 1,
        PositionDerivative::Velocity => 2,
        PositionDerivative::Acceleration => 3,
    }
}
/// A query at another instant whose low 32 bits (and low 16 bits) equal those of `t`, issued right
/// before the query that is judged: the accessors are pure functions of (profile, t), so what was
/// asked before must not matter - a one-entry memo with a lossy key does.
pub fn decoy(mp: &MotionProfile, t: i64, k: usize) {
    let d: i64 = [1i64 << 32, -(1i64 << 32), 3i64 << 32, 1i64 << 16][k % 4];
    if let Some(x) = t.checked_add(d) {
        let _ = mp.get_piece(Time(x));
        let _ = mp.get_position(Time(x));
    }
}
pub fn sample(mp: &MotionProfile, t: i64) -> At {
    let h = <MotionProfile as History<Command, E>>::get(mp, Time(t));
    At {
        t,
        piece: rank(mp.get_piece(Time(t))),
        mode: mp.get_mode(Time(t)).map(kind_code),
        acc: q(mp.get_acceleration(Time(t))),
        vel: q(mp.get_velocity(Time(t))),
        pos: q(mp.get_position(Time(t))),
        hist: h.map(|d| (d.time.0, kind_code(PositionDerivative::from(d.value)), f32::from(d.value).to_bits())),
    }
}

pub fn query_times(ts: [i64; 3]) -> Vec<i64> {
    let mut v = vec![i64::MIN, i64::MIN + 1, -1_000_000_000_000_000_000, -1, 0, 1, i64::MAX - 1, i64::MAX];
    for &b in &ts {
        for d in [-1i64, 0, 1] {
            if let Some(x) = b.checked_add(d) {
                v.push(x);
            }
        }
    }
    // two interior points per phase
    let bounds = [0, ts[0], ts[1], ts[2]];
    for w in bounds.windows(2) {
        if w[1] > w[0] {
            let d = w[1] - w[0];
            v.push(w[0] + d / 3);
            v.push(w[0] + d / 3 * 2);
        }
    }
    if let Some(x) = ts[2].checked_add(1_000_000_000) {
        v.push(x);
    }
    v.sort();
    v.dedup();
    v
}

fn end_command_expected(s: &Spec) -> (u8, f32) {
    // lowest non-zero derivative of the end state (-0 counts as zero)
    if s.a1 != 0.0 {
        (3, s.a1)
    } else if s.v1 != 0.0 {
        (2, s.v1)
    } else {
        (1, s.p1)
    }
}

fn c06_profile(s: &Spec, mp: &MotionProfile, e: &mut Eng) {
    let desc = |what: String| format!("{:?}: {}", s, what);
    let dbg = debug_times(mp);
    let bis = bisect_times(mp);
    let ts = match dbg {
        Some(d) => {
            e.checks += 1;
            if !(0 <= d[0] && d[0] <= d[1] && d[1] <= d[2]) {
                e.violation("profile:phase-order", 1, || desc(format!("constructor returned phase boundaries t1={} t2={} t3={} (not 0 <= t1 <= t2 <= t3)", d[0], d[1], d[2])));
                return;
            }
            if d != bis {
                e.violation("profile:piece-boundaries", 1, || desc(format!("get_piece changes at {:?} but the profile's boundaries are {:?}", bis, d)));
                return;
            }
            d
        }
        None => bis,
    };
    let (ek, ev) = end_command_expected(s);
    let times = query_times(ts);
    let mut prev_rank = 0u8;
    for (qi, &t) in times.iter().enumerate() {
        e.checks += 1;
        e.transitions += 8;
        decoy(mp, t, qi);
        let a = sample(mp, t);
        let a2 = sample(mp, t);
        let fail = |e: &mut Eng, cls: &str, what: String| {
            e.violation(&format!("profile:{}", cls), 1, || desc(format!("boundaries {:?}; at t={}: {} :: {:?}", ts, t, what, a)));
        };
        if a != a2 && !(a.acc.map(|x| x.is_nan()).unwrap_or(false)) {
            fail(e, "impure", "two consecutive reads differ".into());
            return;
        }
        // before start
        let before = t < 0;
        if (a.piece == 0) != before || a.mode.is_none() != before || a.acc.is_none() != before || a.hist.is_none() != before {
            fail(e, "before-start", "piece is before-start, mode/acceleration/history are absent exactly when t < 0".into());
            return;
        }
        if before {
            if a.vel.is_some() || a.pos.is_some() {
                fail(e, "before-start", "velocity/position present before the start".into());
                return;
            }
            continue;
        }
        if a.piece < prev_rank {
            fail(e, "piece-order", format!("piece went back from rank {} to {}", prev_rank, a.piece));
            return;
        }
        prev_rank = a.piece;
        // mode <-> piece
        let piece_enum = mp.get_piece(Time(t));
        let pd = PositionDerivative::try_from(piece_enum).ok().map(kind_code);
        let expect_mode = match a.piece {
            1 | 3 => Some(3),
            2 => Some(2),
            _ => Some(ek),
        };
        if a.mode != expect_mode {
            fail(e, "mode", format!("mode should be {:?} (1=position,2=velocity,3=acceleration; end command kind {})", expect_mode, ek));
            return;
        }
        if a.piece < 4 && pd != a.mode {
            fail(e, "mode", "PositionDerivative::try_from(piece) disagrees with the mode".into());
            return;
        }
        if a.piece == 4 && pd.is_some() {
            fail(e, "mode", "PositionDerivative::try_from(Complete) must fail".into());
            return;
        }
        #[cfg(feature = "dimcheck")]
        {
            let u = Unit::try_from(piece_enum).ok().map(unit_exps);
            let expect_u = match a.piece {
                1 | 3 => Some((1, -2)),
                2 => Some((1, -1)),
                _ => None,
            };
            if u != expect_u {
                fail(e, "mode", format!("Unit::try_from(piece) = {:?}, expected {:?}", u, expect_u));
                return;
            }
        }
        // presence of velocity / position
        let (want_v, want_p) = if a.piece < 4 { (true, true) } else { (ek != 3, ek == 1) };
        if a.vel.is_some() != want_v || a.pos.is_some() != want_p {
            fail(e, "presence", format!("velocity present = {} position present = {} but expected {} / {}", a.vel.is_some(), a.pos.is_some(), want_v, want_p));
            return;
        }
        // history = Datum(t, Command(mode, matching accessor)) bit-identical
        let matching = match a.mode {
            Some(1) => a.pos,
            Some(2) => a.vel,
            _ => a.acc,
        };
        let want_h = matching.map(|m| (t, a.mode.unwrap(), m.to_bits()));
        let h_ok = match (a.hist, want_h) {
            (Some(x), Some(y)) => x == y || (x.0 == y.0 && x.1 == y.1 && f32::from_bits(x.2).is_nan() && f32::from_bits(y.2).is_nan()),
            _ => false,
        };
        if !h_ok {
            fail(e, "history", format!("history must be stamped {} with kind {:?} and the bits of the matching accessor {:?}", t, a.mode, matching));
            return;
        }
        // from completion onward: the end state's lowest non-zero derivative, forever
        if a.piece == 4 {
            let want = (t, ek, ev.to_bits());
            if a.hist != Some(want) && !(ev == 0.0 && a.hist.map(|x| (x.0, x.1, f32::from_bits(x.2) == 0.0)) == Some((t, ek, true))) {
                fail(e, "end-command", format!("after completion the history must return kind {} value {}", ek, ev));
                return;
            }
        }
    }
}

const EPS: f64 = f32::EPSILON as f64;

fn c07_profile(s: &Spec, mp: &MotionProfile, e: &mut Eng) {
    let desc = |what: String| format!("{:?}: {}", s, what);
    let ts = match debug_times(mp) {
        Some(d) => d,
        None => bisect_times(mp),
    };
    if !(0 <= ts[0] && ts[0] <= ts[1] && ts[1] <= ts[2]) {
        e.violation("trapezoid:phase-order", 1, || desc(format!("phase boundaries {:?}", ts)));
        return;
    }
    let sign = if s.p1 < s.p0 { -1.0f64 } else { 1.0 };
    let a = (s.amax.abs() as f64) * sign;
    let vmax = s.vmax.abs() as f64;
    let (p0, v0, p1, v1) = (s.p0 as f64, s.v0 as f64, s.p1 as f64, s.v1 as f64);
    let sec = |ns: i64| ns as f64 / 1e9;
    let (t1, t2, t3) = (sec(ts[0]), sec(ts[1]), sec(ts[2]));
    let vpk = v0 + a * t1;
    let vref = |t: f64| {
        if t < t1 {
            v0 + a * t
        } else if t < t2 {
            vpk
        } else {
            vpk - a * (t - t2)
        }
    };
    let pref = |t: f64| {
        if t < t1 {
            p0 + v0 * t + 0.5 * a * t * t
        } else if t < t2 {
            p0 + v0 * t1 + 0.5 * a * t1 * t1 + vpk * (t - t1)
        } else {
            p0 + v0 * t1 + 0.5 * a * t1 * t1 + vpk * (t2 - t1) + vpk * (t - t2) - 0.5 * a * (t - t2) * (t - t2)
        }
    };
    let k = 8.0;
    let vabs = vpk.abs().max(v0.abs()).max(v1.abs()).max(vmax);
    let tol_v = k * (EPS * (vabs + a.abs() * t3) + a.abs() * 2e-9);
    let mag_p = p0.abs() + p1.abs() + v0.abs() * t3 + a.abs() * t3 * t3 + vabs * t3;
    let tol_p = k * (EPS * mag_p + vabs * 2e-9);
    let fail = |e: &mut Eng, cls: &str, what: String| {
        e.violation(&format!("trapezoid:{}", cls), 1, || desc(format!("boundaries {:?} (peak velocity {}, signed acceleration {}): {}", ts, vpk, a, what)));
    };
    // arrival: the reference trapezoid built from the profile's own boundaries ends at the goal
    e.checks += 1;
    let mut worst_v = (vref(t3) - v1).abs() / tol_v.max(1e-300);
    let mut worst_p = (pref(t3) - p1).abs() / tol_p.max(1e-300);
    if (vref(t3) - v1).abs() > tol_v {
        fail(e, "arrival-velocity", format!("velocity at completion {} but the end velocity is {} (tolerance {:e})", vref(t3), v1, tol_v));
        return;
    }
    if (pref(t3) - p1).abs() > tol_p {
        fail(e, "arrival-position", format!("position at completion {} but the end position is {} (tolerance {:e})", pref(t3), p1, tol_p));
        return;
    }
    // sample instants in [0, t3)
    let mut times: Vec<i64> = vec![0, 1];
    for &b in &ts {
        for d in [-1i64, 0, 1] {
            times.push(b + d);
        }
    }
    for i in 0..=32 {
        times.push(((ts[2] as i128) * i / 32) as i64);
    }
    times.retain(|&t| t >= 0 && t < ts[2]);
    times.sort();
    times.dedup();
    for (qi, &t) in times.iter().enumerate() {
        e.checks += 1;
        e.transitions += 5;
        decoy(mp, t, qi);
        let tt = sec(t);
        let (acc, vel, pos) = (q(mp.get_acceleration(Time(t))), q(mp.get_velocity(Time(t))), q(mp.get_position(Time(t))));
        let (acc, vel, pos) = match (acc, vel, pos) {
            (Some(x), Some(y), Some(z)) => (x as f64, y as f64, z as f64),
            _ => {
                fail(e, "absent-during-move", format!("an accessor is absent at t={} during the move", t));
                return;
            }
        };
        let want_acc = if t < ts[0] {
            a
        } else if t < ts[1] {
            0.0
        } else {
            -a
        };
        if acc != want_acc {
            fail(e, "acceleration", format!("at t={} acceleration {} but the phase demands {}", t, acc, want_acc));
            return;
        }
        if t == 0 && (vel != v0 || pos != p0) {
            fail(e, "start", format!("at t=0 velocity {} position {} but the start state is ({}, {})", vel, pos, p0, v0));
            return;
        }
        let (dv, dp) = ((vel - vref(tt)).abs(), (pos - pref(tt)).abs());
        worst_v = worst_v.max(dv / tol_v.max(1e-300));
        worst_p = worst_p.max(dp / tol_p.max(1e-300));
        if !(dv <= tol_v) {
            fail(e, "velocity", format!("at t={} velocity {} but the trapezoid gives {} (tolerance {:e})", t, vel, vref(tt), tol_v));
            return;
        }
        if !(dp <= tol_p) {
            fail(e, "position", format!("at t={} position {} but the integral of the trapezoid velocity gives {} (tolerance {:e})", t, pos, pref(tt), tol_p));
            return;
        }
        let vlim = vmax.max(v0.abs()).max(v1.abs());
        if vel.abs() > vlim * (1.0 + k * EPS) + tol_v {
            fail(e, "velocity-limit", format!("at t={} |velocity| {} exceeds the largest of max_vel and the start/end speeds {}", t, vel.abs(), vlim));
            return;
        }
    }
    let wv = (worst_v * 1000.0) as i128;
    let wp = (worst_p * 1000.0) as i128;
    e.maxi("worst_velocity_error_permille_of_tolerance", wv);
    e.maxi("worst_position_error_permille_of_tolerance", wp);
}

fn c07_mirror(s: &Spec, r: &Result<MotionProfile, String>, e: &mut Eng) {
    let m = s.mirror();
    let rm = guard(|| m.build());
    e.transitions += 1;
    e.checks += 1;
    let zero = s.p0 == s.p1;
    let key = if zero { "trapezoid:mirror:zero-displacement" } else { "trapezoid:mirror" };
    match (r, &rm) {
        (Err(_), Err(_)) => {}
        (Ok(a), Ok(b)) => {
            let (ta, tb) = (debug_times(a).unwrap_or(bisect_times(a)), debug_times(b).unwrap_or(bisect_times(b)));
            if ta != tb {
                e.violation(key, 1, || format!("{:?}: phase boundaries {:?} but the mirrored move (all positions and velocities negated) has {:?}", s, ta, tb));
                return;
            }
            for t in query_times(ta) {
                let (x, y) = (sample(a, t), sample(b, t));
                let neg = |o: Option<f32>| o.map(|v| (-v).to_bits());
                let same = x.piece == y.piece
                    && x.mode == y.mode
                    && neg(x.acc) == y.acc.map(|v| v.to_bits())
                    && neg(x.vel) == y.vel.map(|v| v.to_bits())
                    && neg(x.pos) == y.pos.map(|v| v.to_bits());
                // -0/+0 are the same output value
                let same = same
                    || (x.piece == y.piece
                        && x.mode == y.mode
                        && x.acc.map(|v| -v) == y.acc
                        && x.vel.map(|v| -v) == y.vel
                        && x.pos.map(|v| -v) == y.pos);
                if !same {
                    e.violation(key, 1, || format!("{:?}: at t={} outputs {:?} but the mirrored move gives {:?} (not the exact negation)", s, t, x, y));
                    return;
                }
            }
        }
        (a, b) => {
            e.violation(key, 1, || format!("{:?}: accepted = {} but the mirrored move accepted = {}", s, a.is_ok(), b.is_ok()));
        }
    }
}

fn comfortable(s: &Spec) -> bool {
    let (vmax, a) = (s.vmax.abs() as f64, s.amax.abs() as f64);
    let dp = (s.p1 as f64 - s.p0 as f64).abs();
    if dp == 0.0 || s.v0.abs() as f64 > vmax || s.v1.abs() as f64 > vmax {
        return false;
    }
    let d_acc = (vmax * vmax - (s.v0 as f64).powi(2)) / (2.0 * a);
    let d_dec = (vmax * vmax - (s.v1 as f64).powi(2)) / (2.0 * a);
    dp >= 1.05 * (d_acc + d_dec) + 1e-3 * (s.p0.abs() as f64 + s.p1.abs() as f64) + 1e-6
}

pub fn specs(thorough: bool) -> Vec<Spec> {
    let pos: Vec<f32> = if thorough { vec![-1e4, -999.9, -250.0, -3.0, -1.0, -0.015625, 0.0, 0.015625, 1.0, 3.0, 250.0, 999.9, 1e4] } else { vec![-1e4, -250.0, -1.0, 0.0, 1.0, 250.0, 1e4] };
    let frac: Vec<f32> = if thorough { vec![-1.0, -0.75, -0.5, -0.1, 0.0, 0.3, 0.5, 0.9, 1.0] } else { vec![-1.0, -0.5, 0.0, 0.5, 1.0] };
    let lim: Vec<f32> = if thorough { vec![1e-2, 0.1, 1.0, 7.0, 30.0, 1e3] } else { vec![1e-2, 1.0, 1e3] };
    let mut v = Vec::new();
    for &p0 in &pos {
        for &p1 in &pos {
            for &vm in &lim {
                for &am in &lim {
                    for &f0 in &frac {
                        for &f1 in &frac {
                            for &a1 in &[0.0f32, 1.0] {
                                for (sv, sa) in [(1.0f32, 1.0f32), (-1.0, 1.0), (1.0, -1.0), (-1.0, -1.0)] {
                                    v.push(Spec { p0, v0: f0 * vm, p1, v1: f1 * vm, a1, vmax: vm * sv, amax: am * sa });
                                }
                            }
                        }
                    }
                }
            }
        }
    }
    v
}

/// Profiles on both sides of the acceptance frontier: the displacement equals the acceleration
/// plus deceleration distance times (1 + delta) or plus a small absolute amount (near-triangular
/// moves with a vanishing or very short cruise phase), in both directions.
pub fn frontier_specs() -> Vec<Spec> {
    let mut v = Vec::new();
    for &vm in &[1e-2f32, 1.0, 30.0, 1e3] {
        for &am in &[1e-2f32, 1.0, 1e3] {
            for &f0 in &[-0.5f32, 0.0, 0.5, 1.0] {
                for &f1 in &[-0.5f32, 0.0, 0.5, 1.0] {
                    let (v0, v1) = (f0 * vm, f1 * vm);
                    for dir in [1.0f64, -1.0] {
                        // signed velocities along the direction of travel
                        let (a0, a1) = (v0 as f64 * dir, v1 as f64 * dir);
                        let (vmx, amx) = (vm as f64, am as f64);
                        let dstar = (vmx * vmx - a0 * a0) / (2.0 * amx) + (vmx * vmx - a1 * a1) / (2.0 * amx);
                        let mut dps: Vec<f64> = Vec::new();
                        for delta in [-1e-3, -1e-5, 1e-6, 1e-5, 1e-4, 1e-3, 1e-2] {
                            dps.push(dstar * (1.0 + delta));
                        }
                        for abs in [5e-4 * vmx, 0.5 * vmx * 1e-3, 0.5, 1e-3] {
                            dps.push(dstar + abs);
                        }
                        for dp in dps {
                            for &p0 in &[0.0f32, -250.0] {
                                let p1 = (p0 as f64 + dir * dp) as f32;
                                if p1.abs() <= 2.0e4 && p1 != p0 {
                                    v.push(Spec { p0, v0, p1, v1, a1: 0.0, vmax: vm, amax: am });
                                }
                            }
                        }
                    }
                }
            }
        }
    }
    // end states whose lowest non-zero derivative is tiny (the end command is decided by a zero test)
    for &(v1, a1) in &[(1e-7f32, 0.0f32), (-5e-8, 0.0), (1e-30, 0.0), (f32::MIN_POSITIVE, 0.0), (0.0, 1e-7), (0.0, -1e-30), (0.5, 1e-10), (0.0, f32::from_bits(1))] {
        for &(p0, p1) in &[(0.0f32, 3.0f32), (250.0, -250.0)] {
            for &vm in &[1.0f32, 30.0] {
                v.push(Spec { p0, v0: 0.0, p1, v1, a1, vmax: vm, amax: 1.0 });
            }
        }
    }
    v
}

/// Dense sweeps of the dimensionless shape parameters of a move: the start and end speed as a
/// fraction of the limit (steps of 1/32 over [-1, 1]) and the cruise distance in units of
/// vmax^2/amax (2^(i/8) over 2^-5..2^5), pairwise, for three non-round (vmax, amax) pairs and both
/// directions; the displacement is the acceleration + deceleration distance plus that cruise
/// distance, so every profile is accepted by construction (up to rounding at the frontier).
pub fn sweep_specs(thorough: bool) -> Vec<Spec> {
    let mut v = Vec::new();
    let fstep = if thorough { 64 } else { 32 };
    let fr: Vec<f32> = (-fstep..=fstep).map(|i| i as f32 / fstep as f32).collect();
    let per = if thorough { 16 } else { 8 };
    let cr: Vec<f64> = (-5 * per..=5 * per).map(|i| (i as f64 / per as f64).exp2()).collect();
    for &(vm, am) in &[(3.7f32, 1.9f32), (100.0, 50.0), (0.37, 9.0)] {
        for dir in [1.0f64, -1.0] {
            let mut push = |f0: f32, f1: f32, c: f64| {
                // fractions are along the direction of travel
                let (a0, a1) = (f0 as f64 * vm as f64, f1 as f64 * vm as f64);
                let (vmx, amx) = (vm as f64, am as f64);
                let dstar = (vmx * vmx - a0 * a0) / (2.0 * amx) + (vmx * vmx - a1 * a1) / (2.0 * amx);
                let dp = dstar + c * vmx * vmx / amx;
                let p0 = 12.5f32;
                let p1 = (p0 as f64 + dir * dp) as f32;
                if p1.abs() <= 1.0e4 {
                    v.push(Spec { p0, v0: (a0 * dir) as f32, p1, v1: (a1 * dir) as f32, a1: 0.0, vmax: vm, amax: am });
                }
            };
            for &f in &fr {
                for &c in &cr {
                    push(f, 0.0, c);
                    push(f, 0.37, c);
                    push(0.0, f, c);
                    push(0.41, f, c);
                }
            }
            for &f0 in &fr {
                for &f1 in &fr {
                    push(f0, f1, 0.37);
                    push(f0, f1, 2.9);
                }
            }
        }
    }
    v
}

fn fkey(x: f32) -> i64 {
    let b = x.to_bits();
    if b & 0x8000_0000 != 0 {
        -((b & 0x7fff_ffff) as i64)
    } else {
        b as i64
    }
}
fn fkey_inv(k: i64) -> f32 {
    if k < 0 {
        f32::from_bits((-k) as u32 | 0x8000_0000)
    } else {
        f32::from_bits(k as u32)
    }
}
/// The acceptance frontier itself, located on the code under test: for each shape (limits, start and
/// end speed fractions, direction, start position) the end position is bisected over the f32
/// number line between a rejected and an accepted move until two adjacent floats are found, one
/// rejected and one accepted; the 24 floats on the accepted side and the frontier pair are returned.
/// Whatever the constructor tolerates at its edge (a cruise time that rounds to slightly below
/// zero, a boundary order that only holds away from the edge) is in these profiles and in no grid.
pub fn located_frontier_specs() -> (Vec<Spec>, usize) {
    let mut v = Vec::new();
    let mut located = 0usize;
    let accepted = |s: &Spec| guard(|| s.build()).is_ok();
    for &vm in &[1e-2f32, 0.3, 1.0, 30.0, 1e3] {
        for &am in &[1e-2f32, 0.12, 1.0, 1e3] {
            for &f0 in &[-0.5f32, 0.0, 0.5, 1.0] {
                for &f1 in &[-0.5f32, 0.0, 0.5, 1.0] {
                    for dir in [1.0f64, -1.0] {
                        for &p0 in &[0.0f32, -250.0] {
                            let (v0, v1) = ((f0 as f64 * vm as f64 * dir) as f32, (f1 as f64 * vm as f64 * dir) as f32);
                            let (a0, a1) = (f0 as f64 * vm as f64, f1 as f64 * vm as f64);
                            let (vmx, amx) = (vm as f64, am as f64);
                            let dstar = (vmx * vmx - a0 * a0) / (2.0 * amx) + (vmx * vmx - a1 * a1) / (2.0 * amx);
                            if !(dstar > 1e-6) || dstar > 9.0e3 {
                                continue;
                            }
                            let mk = |p1: f32| Spec { p0, v0, p1, v1, a1: 0.0, vmax: vm, amax: am };
                            let (mut lo, mut hi) = (fkey((p0 as f64 + dir * dstar * 0.97) as f32), fkey((p0 as f64 + dir * dstar * 1.03) as f32));
                            // lo: rejected, hi: accepted (on the unchanged tree); otherwise there is no frontier to locate here
                            if accepted(&mk(fkey_inv(lo))) || !accepted(&mk(fkey_inv(hi))) {
                                continue;
                            }
                            while (hi - lo).abs() > 1 {
                                let mid = lo + (hi - lo) / 2;
                                if accepted(&mk(fkey_inv(mid))) {
                                    hi = mid;
                                } else {
                                    lo = mid;
                                }
                            }
                            located += 1;
                            let step = if hi > lo { 1 } else { -1 };
                            v.push(mk(fkey_inv(lo)));
                            for k in 0..24 {
                                v.push(mk(fkey_inv(hi + step * k)));
                            }
                        }
                    }
                }
            }
        }
    }
    (v, located)
}

pub fn run(ctx: &Ctx, second: bool) -> Vec<Eng> {
    let budget = Budget::secs(if ctx.thorough { 2000 } else { 120 });
    let mut all = specs(ctx.thorough);
    let nf = { let f = frontier_specs(); let n = f.len(); all.extend(f); n };
    let mut e = if !second {
        Eng::new(
            "c06-accessor-agreement",
            "grid of constructor calls (start/end positions up to +-1e4 incl. equal, start/end velocities as fractions of the limit incl. +-1 and 0, end acceleration 0/1, limits 1e-2..1e3, negative limit arguments) under a panic guard; for every accepted profile the phase boundaries are read from the Debug output and cross-checked by bisection on get_piece, and all six accessors are sampled at {i64 MIN, MIN+1, -1e18, -1, 0, 1, each boundary -1/0/+1 ns, two interior points per phase, t3+1s, MAX-1, MAX}; relational oracle (exact): before-start <=> t<0 <=> mode/acceleration/history absent; presence of velocity/position; piece order; mode <-> piece <-> conversions; history = Datum(t, Command(mode, bits of matching accessor)); 0<=t1<=t2<=t3; end command = lowest non-zero derivative of the end state; non-trivial = accepted profile with three non-empty phases",
            "",
        )
    } else {
        Eng::new(
            "c07-trapezoid",
            "same grid; for every accepted profile an f64 trapezoid is built from (start state, signed max acceleration, the profile's own t1..t3) and compared at t=0, boundaries +-1 ns and 33 equally spaced instants: acceleration in {+-a, 0} with the displacement's sign (exact), v(0)=v0 and p(0)=p0 exactly, |v - v_ref| and |p - p_ref| within 16 x (eps x magnitudes + 2 ns x rate) (this is continuity, the integral relation and the velocity bound in one), reference end point = goal within the same tolerance; mirror: negated positions and velocities give identical boundaries and exactly negated outputs; acceptance: comfortably feasible moves never panic; non-trivial = accepted profile with three non-empty phases",
            "",
        )
    };
    let ns = { let f = sweep_specs(ctx.thorough); let n = f.len(); all.extend(f); n };
    let (lf, nloc) = located_frontier_specs();
    all.extend(lf);
    e.notes.push(format!("acceptance frontier located on the code under test: {} shapes (5 velocity limits x 4 acceleration limits x 4 start-speed x 4 end-speed fractions x 2 directions x 2 start positions, those with a frontier) bisected over the f32 number line of the end position down to an adjacent rejected/accepted pair of floats; the rejected float and the 24 floats from the first accepted one onward are among the constructor calls", nloc));
    e.bounds = format!("{} constructor calls ({} of them placed on both sides of the acceptance frontier: near-triangular moves; {} of them dense pairwise sweeps of start-speed fraction, end-speed fraction (steps of 1/32) and cruise distance / (vmax^2/amax) (2^(i/8) over 2^-5..2^5) for three non-round limit pairs and both directions)", all.len(), nf, ns);
    par_cases(&mut e, &all, budget, |s, e| {
        e.executions += 1;
        e.states += 1;
        e.transitions += 1;
        // a sibling call first: the same move translated by +256 mm (same stroke and speeds where the
        // positions are small integers) - the constructor is a pure function of its arguments
        let _ = guard(|| Spec { p0: s.p0 + 256.0, p1: s.p1 + 256.0, ..*s }.build());
        let r = guard(|| s.build());
        match &r {
            Err(m) => {
                e.count("rejected_by_constructor", 1);
                if second && comfortable(s) {
                    e.violation("trapezoid:acceptance", 1, || format!("{:?}: displacement comfortably exceeds acceleration plus deceleration distance and both speeds are inside the limit, but the constructor panicked: {}", s, m));
                }
            }
            Ok(mp) => {
                e.count("accepted_by_constructor", 1);
                let ts = debug_times(mp).unwrap_or([0, 0, 0]);
                if ts[0] > 0 && ts[1] > ts[0] && ts[2] > ts[1] {
                    e.nontrivial += 1;
                }
                e.outcome(h64(&ts));
                if !second {
                    c06_profile(s, mp, e);
                } else {
                    c07_profile(s, mp, e);
                }
                e.sample(|| format!("{:?} -> boundaries {:?}", s, ts));
            }
        }
        if second {
            c07_mirror(s, &r, e);
        }
    });
    vec![e]
}

impl At {
    /// canonical words of one sampled instant for cross-configuration traces (C19)
    pub fn words(&self) -> Vec<u64> {
        let c = crate::c19::canon;
        let o = |x: Option<f32>| x.map(|v| 1 + c(v) as u64).unwrap_or(0);
        vec![
            self.piece as u64,
            self.mode.map(|m| m as u64 + 1).unwrap_or(0),
            o(self.acc),
            o(self.vel),
            o(self.pos),
            self.hist.map(|h| (h.0 as u64) ^ ((h.1 as u64) << 56) ^ ((c(f32::from_bits(h.2)) as u64) << 8)).unwrap_or(0),
        ]
    }
}
pub fn spec_build(s: &Spec) -> MotionProfile {
    s.build()
}
