//! C16 — scratch-slot clause: with the MaybeUninit scratch arrays poisoned (cfg rrtk_verif),
//! no result may depend on an unwritten slot and no index may be out of range.
//! (The lifetime clause is decided by compiler probes driven from driver/c16_lifetime.py.)
use crate::c02::In;
use crate::env::*;
use crate::mc::*;
use crate::Ctx;
use rrtk::devices::*;
use rrtk::*;
use std::cell::RefCell;

fn rekey(e: &mut Eng, prefix: &str) {
    let old = std::mem::take(&mut e.viol);
    for (k, mut v) in old {
        let nk = format!("{}:{}", prefix, k);
        v.key = nk.clone();
        e.viol.insert(nk, v);
    }
}

fn nary_patterns(e: &mut Eng) {
    for n in 1..=8usize {
        // all absent/present patterns
        for mask in 0..(1u32 << n) {
            let cats: Vec<In> = (0..n).map(|i| if mask >> i & 1 == 1 { In::P } else { In::N }).collect();
            let times: Vec<i64> = (0..n).map(|i| 100 + 7 * ((i * 5) % n) as i64).collect();
            e.executions += 1;
            e.states += 1;
            e.transitions += 3;
            if mask != 0 && mask != (1 << n) - 1 {
                e.nontrivial += 1;
            }
            crate::c02::nary_case(n, &cats, &times, e);
            // one erroring input at every position
            for ep in 0..n {
                let mut c2 = cats.clone();
                c2[ep] = In::E(1);
                e.executions += 1;
                e.transitions += 3;
                crate::c02::nary_case(n, &c2, &times, e);
            }
        }
        e.max_depth = n as u64;
    }
    e.sample(|| "arity 3 pattern present/absent/present: sum must be 2+5 with the newer time, never the poisoned middle slot".to_string());
    rekey(e, "scratch-slot");
}

/// Getter whose presence flips on every poll: P,N,P,... or N,P,N,...
struct Flaky {
    polls: std::cell::Cell<u32>,
    start_present: bool,
    value: f32,
    time: i64,
}
impl Getter<f32, E> for Flaky {
    fn get(&self) -> Output<f32, E> {
        let k = self.polls.get();
        self.polls.set(k + 1);
        if (k % 2 == 0) == self.start_present {
            Ok(Some(Datum::new(Time(self.time), self.value)))
        } else {
            Ok(None)
        }
    }
}
impl Updatable<E> for Flaky {
    fn update(&mut self) -> NothingOrError<E> {
        Ok(())
    }
}
/// An input may legitimately answer differently each time it is polled. Whatever a combinator then
/// returns, it must be built from values its inputs really delivered: with the poison in place a
/// result outside the range of any subset sum / product / candidate (or a poisoned timestamp)
/// betrays a read of an unwritten slot.
fn flaky_inputs<const N: usize>(e: &mut Eng) {
    use rrtk::streams::math::*;
    use rrtk::streams::Latest;
    let primes = [2.0f32, 3.0, 5.0, 7.0];
    for code in 0..ipow(4, N) {
        let mut kinds = [0usize; N];
        decode(code, 4, &mut kinds);
        e.executions += 1;
        e.states += 1;
        e.transitions += 6;
        e.checks += 1;
        if kinds.iter().any(|&k| k >= 2) {
            e.nontrivial += 1;
        }
        let mk = || -> [Reference<dyn Getter<f32, E>>; N] {
            core::array::from_fn(|i| match kinds[i] {
                0 => dyn_getter(&rc(Scr::<f32>::new(Ok(Some(Datum::new(Time(10 + i as i64), primes[i])))))),
                1 => dyn_getter(&rc(Scr::<f32>::new(Ok(None)))),
                k => dyn_getter(&rc(Flaky { polls: std::cell::Cell::new(0), start_present: k == 2, value: primes[i], time: 10 + i as i64 })),
            })
        };
        let r = guard(|| {
            let s = SumStream::new(mk());
            let p = ProductStream::new(mk());
            let l = Latest::new(mk());
            [obs(&s.get()), obs(&s.get()), obs(&p.get()), obs(&p.get()), obs(&l.get()), obs(&l.get())]
        });
        match r {
            Err(m) => e.violation("scratch-slot:flaky-input:panic", N, || format!("arity {} input kinds {:?} (0 present, 1 absent, 2 flips P->N, 3 flips N->P): {}", N, kinds, m)),
            Ok(os) => {
                e.outcome(h64(&os));
                for (j, o) in os.iter().enumerate() {
                    let sane = !o.is_err() && (o.is_none() || (o.f(0).is_finite() && o.f(0).abs() <= 1000.0 && o.f(0) >= 2.0 && (10..10 + N as i64).contains(&o.time)));
                    if !sane {
                        e.violation("scratch-slot:flaky-input:garbage", N, || {
                            format!("arity {} input kinds {:?} (0 present, 1 absent, 2 flips P->N per poll, 3 flips N->P): read #{} returned {} which no combination of delivered values explains", N, kinds, j, o.show())
                        });
                        break;
                    }
                }
            }
        }
    }
}

type Term<'a> = RefCell<Terminal<'a, E>>;

fn axle_case<const N: usize>(e: &mut Eng) {
    e.executions += 1;
    e.states += 1;
    e.nontrivial += 1;
    let r = guard(|| -> Result<(), String> {
        let mut ax = Axle::<N, E>::new();
        let xs: Vec<Term> = (0..N).map(|_| Terminal::new()).collect();
        for i in 0..N {
            let t = ax.get_terminal(i);
            // a freshly constructed terminal holds nothing and is not borrowed
            let s = <Terminal<E> as Getter<State, E>>::get(&t.borrow());
            let c = <Terminal<E> as Getter<Command, E>>::get(&t.borrow());
            let d = <Terminal<E> as Getter<TerminalData, E>>::get(&t.borrow());
            if s != Ok(None) || c != Ok(None) || d != Ok(None) {
                return Err(format!("Axle<{}> terminal {} is not empty after construction: {:?} {:?} {:?}", N, i, s, c, d));
            }
            let st = Datum::new(Time(i as i64 - 3), State::new_raw(i as f32 + 1.0, 0.5, -2.0));
            t.borrow_mut().set(st).map_err(|e| format!("{:?}", e))?;
            if <Terminal<E> as Getter<State, E>>::get(&t.borrow()) != Ok(Some(st)) {
                return Err(format!("Axle<{}> terminal {} does not read back what was written", N, i));
            }
            connect(t, &xs[i]);
        }
        ax.update().map_err(|e| format!("{:?}", e))?;
        if N > 0 {
            let mean: f32 = (0..N).map(|i| i as f32 + 1.0).sum::<f32>() / N as f32;
            for i in 0..N {
                let got = <Terminal<E> as Settable<Datum<State>, E>>::get_last_request(&ax.get_terminal(i).borrow());
                match got {
                    Some(d) if d.value.position == mean && d.time == Time(N as i64 - 4) => {}
                    other => return Err(format!("Axle<{}> after update terminal {} holds {:?}, expected mean position {} at time {}", N, i, other, mean, N as i64 - 4)),
                }
            }
        }
        Ok(())
    });
    e.transitions += (3 * N + 1) as u64;
    e.checks += 1;
    match r {
        Ok(Ok(())) => {}
        Ok(Err(m)) => e.violation("scratch-slot:axle-new:bad-terminal", N, || m),
        Err(m) => e.violation("scratch-slot:axle-new:panic", N, || format!("Axle<{}>: {}", N, m)),
    }
    // out-of-range indices must be refused by a panic, never hand out a reference
    for idx in [N, N + 1, N + 7, usize::MAX / 2, usize::MAX] {
        e.executions += 1;
        e.checks += 1;
        let r = guard(|| {
            let ax = Axle::<N, E>::new();
            let t = ax.get_terminal(idx);
            t as *const _ as usize
        });
        if let Ok(addr) = r {
            e.violation("out-of-bounds:axle-get-terminal", N, || format!("Axle<{}>::get_terminal({}) returned a reference (address {:#x}) instead of panicking", N, idx, addr));
        }
    }
}

fn axles(e: &mut Eng) {
    axle_case::<0>(e);
    axle_case::<1>(e);
    axle_case::<2>(e);
    axle_case::<3>(e);
    axle_case::<4>(e);
    axle_case::<5>(e);
    axle_case::<6>(e);
    axle_case::<7>(e);
    axle_case::<8>(e);
    e.sample(|| "Axle<5>::new(): every terminal empty, writable, connectable; get_terminal(5) must panic".to_string());
}

/// Every sequence of terminal operations, read back through the poisoned scratch array.
/// Alphabet over 3 terminals: connect(i,j) for ordered i != j (6), disconnect(i) (3), set_state(i)
/// (3, a fresh power-of-two position and a fresh time each). After every step each terminal's state
/// read (the only reader that goes through the scratch array), command read and combined read are
/// taken. Oracle (nothing more than the scratch clause): no panic, and every state read is
/// explainable by values that were really written - absent, one written state, or the mean of two
/// written states, stamped with a written time. The 0x7F poison (3.39e38, time 0x7F7F...) or any
/// other value no written state explains betrays a slot that was counted but never written.
fn terminal_ops(e: &mut Eng, depth: usize, budget: Budget) {
    const NT: usize = 3;
    let pairs: Vec<(usize, usize)> = (0..NT).flat_map(|i| (0..NT).filter(move |&j| j != i).map(move |j| (i, j))).collect();
    let nops = pairs.len() + 2 * NT;
    let pairs = &pairs;
    par_seqs(e, nops, depth, budget, move |seq, e| {
        let r = guard(|| -> Result<bool, (usize, String)> {
            let xs: Vec<Term> = (0..NT).map(|_| Terminal::new()).collect();
            let mut written: Vec<(i64, f32)> = Vec::new();
            let mut relinked = false;
            let mut links = 0usize;
            for (k, &op) in seq.iter().enumerate() {
                if op < pairs.len() {
                    let (i, j) = pairs[op];
                    connect(&xs[i], &xs[j]);
                    links += 1;
                    if links >= 2 {
                        relinked = true;
                    }
                } else if op < pairs.len() + NT {
                    xs[op - pairs.len()].borrow_mut().disconnect();
                } else {
                    let i = op - pairs.len() - NT;
                    let pos = (1u32 << (written.len() + 1)) as f32;
                    let t = 1000 + 7 * written.len() as i64;
                    xs[i].borrow_mut().set(Datum::new(Time(t), State::new_raw(pos, -pos, 0.5 * pos))).map_err(|er| (k, format!("set failed: {:?}", er)))?;
                    written.push((t, pos));
                }
                for (i, x) in xs.iter().enumerate() {
                    let s = <Terminal<E> as Getter<State, E>>::get(&x.borrow());
                    let _c = <Terminal<E> as Getter<Command, E>>::get(&x.borrow());
                    let d = <Terminal<E> as Getter<TerminalData, E>>::get(&x.borrow());
                    let explain = |time: Time, st: State| -> bool {
                        let tok = written.iter().any(|w| w.0 == time.0);
                        let single = written.iter().any(|w| st.position == w.1 && st.velocity == -w.1 && st.acceleration == 0.5 * w.1);
                        let mean = written.iter().enumerate().any(|(a, wa)| written.iter().skip(a + 1).any(|wb| {
                            let m = (wa.1 + wb.1) / 2.0;
                            st.position == m && st.velocity == -m && st.acceleration == 0.5 * m
                        }));
                        tok && (single || mean)
                    };
                    match s {
                        Ok(None) => {}
                        Ok(Some(dat)) => {
                            if !explain(dat.time, dat.value) {
                                return Err((k, format!("terminal {} state read returned {:?}, which no written state or mean of two written states explains (written (time, position): {:?})", i, dat, written)));
                            }
                        }
                        Err(er) => return Err((k, format!("terminal {} state read failed: {:?}", i, er))),
                    }
                    if let Ok(Some(dat)) = d {
                        if let Some(st) = dat.value.state {
                            if !explain(dat.time, st) {
                                return Err((k, format!("terminal {} combined read returned {:?}, which no written state explains (written: {:?})", i, dat, written)));
                            }
                        }
                    }
                }
            }
            Ok(relinked && !written.is_empty())
        });
        let show = |n: usize| -> String {
            seq[..n].iter().map(|&op| if op < pairs.len() { format!("connect({},{})", pairs[op].0, pairs[op].1) } else if op < pairs.len() + NT { format!("disconnect({})", op - pairs.len()) } else { format!("set_state({})", op - pairs.len() - NT) }).collect::<Vec<_>>().join(",")
        };
        e.checks += (seq.len() * NT * 3) as u64;
        match r {
            Ok(Ok(nt)) => {
                if nt {
                    e.nontrivial += 1;
                }
                e.outcome(h64(&seq));
            }
            Ok(Err((k, m))) => e.violation("scratch-slot:terminal-ops:unexplained-read", k + 1, || format!("[{}]: {}", show(k + 1), m)),
            Err(m) => e.violation("scratch-slot:terminal-ops:panic", seq.len(), || format!("[{}] panicked: {}", show(seq.len()), m)),
        }
        (seq.len() * (1 + 3 * NT)) as u64
    });
    e.sample(|| "connect(0,1),set_state(0),connect(0,2),set_state(1),disconnect(2): every state read explainable by written states".to_string());
}

pub fn run(_ctx: &Ctx) -> Vec<Eng> {
    let hook = cfg!(rrtk_verif);
    let mut e1 = Eng::new(
        "c16-nary-scratch",
        "n-ary sum and product (f32 and, up to arity 3, Quantity) and newest-of for arities 1..8 x all 2^N absent/present patterns, and each pattern again with one erroring input at every position, with the MaybeUninit scratch arrays filled with 0x7F bytes by the rrtk_verif hook: results must equal the reference (sum/product of the present values, newest present time), so any use of an unwritten slot (value 3.39e38, time 0x7F7F...) and any out-of-range index (caught panic) is a violation; non-trivial = pattern with both present and absent inputs",
        "sum over N=1..8 of 2^N x (1 + N) cases",
    );
    nary_patterns(&mut e1);
    flaky_inputs::<1>(&mut e1);
    flaky_inputs::<2>(&mut e1);
    flaky_inputs::<3>(&mut e1);
    flaky_inputs::<4>(&mut e1);
    e1.rule.push_str("; plus, for arities 1..4, every assignment of {present, absent, presence flips P->N on every poll, flips N->P} to the inputs: the result must be explainable by delivered values (no poison, no panic)");
    e1.notes.push(format!("poison hook active in this build: {}", hook));
    let mut e2 = Eng::new(
        "c16-terminal-read-scratch",
        "terminal state/command/combined reads for all 16 own/partner presence combinations x weak timestamp orders x linked/unlinked with the 2-slot scratch array poisoned (engine shared with C09)",
        "see c09-read-values",
    );
    crate::c09::values(&mut e2);
    rekey(&mut e2, "scratch-slot");
    let mut e3 = Eng::new(
        "c16-axle-constructor",
        "Axle::<N>::new() for N = 0..8 with the element array poisoned before the constructor's write loop: every terminal must be empty, unborrowed, writable, connectable and take part in update(); get_terminal with index N, N+1, N+7, usize::MAX/2, usize::MAX must panic",
        "9 sizes x (1 + 5 out-of-range probes)",
    );
    axles(&mut e3);
    let depth = if _ctx.thorough { 6 } else { 5 };
    let mut e4 = Eng::new(
        "c16-terminal-ops-scratch",
        "all sequences of exactly `depth` operations over {connect(i,j) for ordered i != j, disconnect(i), set_state(i) with a fresh power-of-two state and time} on 3 terminals, with the state reader's scratch array poisoned; after every step every terminal's state, command and combined read: no panic, and each state read is absent, a written state or the mean of two written states with a written time (the poison or anything else no written value explains = a counted but unwritten slot); non-trivial = at least two connects and one written state",
        &format!("depth {} => 12^{} sequences (every prefix judged)", depth, depth),
    );
    terminal_ops(&mut e4, depth, Budget::secs(if _ctx.thorough { 600 } else { 60 }));
    if !hook {
        for e in [&mut e1, &mut e3, &mut e4] {
            e.caps.push("built without --cfg rrtk_verif: scratch arrays are not poisoned in this run".to_string());
        }
    }
    let mut e6 = Eng::new(
        "c16-aliased-inputs-scratch",
        "n-ary sum, product and newest-of (arities 2..5) whose input slots hold the SAME getter object (present / absent / erroring) in every slot, and around a different getter, with the scratch arrays poisoned (engine shared with C02): a slot that is counted as filled although its (shared) input delivered nothing reads the poison",
        "see c02-fixed-arity (aliasing part)",
    );
    crate::c02::aliased_inputs(&mut e6);
    rekey(&mut e6, "scratch-slot");
    let mut e5 = Eng::new(
        "c16-reference-liveness",
        "every Reference variant of the build: all sequences of 4 operations over {clone, to_dyn! (also attempted on the variants the macro does not list: a Reference it hands out counts), read, write, drop} x 3 handle slots on a target with a drop flag, plus the 10 to_dyn! argument forms (engine shared with C17): the target of an Rc/Arc-backed Reference must stay alive exactly as long as a handle derived from it in safe code exists - a handle that survives its target is a dangling Reference obtained without `unsafe`",
        "15^4 sequences x variants of the build; 10 argument forms x listed variants x 3 layouts",
    );
    crate::c17::liveness(&mut e5, 4, Budget::secs(120));
    rekey(&mut e5, "dangling");
    vec![e1, e2, e3, e4, e5, e6]
}
