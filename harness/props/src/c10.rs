//! C10 — integral, derivative and to-state streams equal trapezoid sums and differences.
use crate::env::*;
use crate::mc::*;
use crate::refmodels::*;
use crate::Ctx;
use rrtk::streams::converters::*;
use rrtk::streams::math::*;
use rrtk::*;
use std::cell::RefCell;
use std::rc::Rc;

#[derive(Clone, Copy, Debug, PartialEq)]
pub enum Ev {
    P(i64, f32),
    N(i64),
    Er(i64, u8),
}
fn ev_dt(e: &Ev) -> i64 {
    match e {
        Ev::P(d, _) | Ev::N(d) | Ev::Er(d, _) => *d,
    }
}
pub fn show(h: &[Ev]) -> String {
    h.iter()
        .map(|e| match e {
            Ev::P(d, v) => format!("P(+{}ns,{:?})", d, v),
            Ev::N(_) => "N".to_string(),
            Ev::Er(_, 0) => "FromNone".to_string(),
            Ev::Er(_, c) => format!("E{}", c),
        })
        .collect::<Vec<_>>()
        .join(",")
}

pub const KINDS: [&str; 5] = ["integral", "derivative", "acceleration_to_state", "velocity_to_state", "position_to_state"];

pub fn natural_unit(kind: usize) -> Unit {
    match kind {
        2 => MILLIMETER_PER_SECOND_SQUARED,
        3 => MILLIMETER_PER_SECOND,
        _ => MILLIMETER,
    }
}

trait Subj {
    fn feed(&mut self, o: Output<Quantity, E>);
    fn update(&mut self) -> u32;
    fn get(&self) -> Obs;
}
struct Sub<S> {
    inp: Rc<RefCell<Scr<Quantity>>>,
    s: S,
    g: fn(&S) -> Obs,
    u: fn(&mut S) -> NothingOrError<E>,
}
impl<S> Subj for Sub<S> {
    fn feed(&mut self, o: Output<Quantity, E>) {
        self.inp.borrow_mut().next = o;
    }
    fn update(&mut self) -> u32 {
        obs_unit(&(self.u)(&mut self.s))
    }
    fn get(&self) -> Obs {
        (self.g)(&self.s)
    }
}
fn make(kind: usize) -> Box<dyn Subj> {
    macro_rules! sub {
        ($ctor:expr) => {{
            let inp = rc(Scr::<Quantity>::new(Ok(None)));
            let s = $ctor(rf(&inp));
            Box::new(Sub { inp, s, g: |s| obs(&s.get()), u: |s| s.update() })
        }};
    }
    match kind {
        0 => sub!(IntegralStream::new),
        1 => sub!(DerivativeStream::new),
        2 => sub!(AccelerationToState::new),
        3 => sub!(VelocityToState::new),
        4 => sub!(PositionToState::new),
        _ => unreachable!(),
    }
}

pub fn run_real(kind: usize, h: &[Ev], t0: i64, unit: Unit) -> Vec<(u32, Obs)> {
    let mut s = make(kind);
    let mut t = t0;
    let mut out = Vec::with_capacity(h.len());
    for e in h {
        t += ev_dt(e);
        s.feed(match e {
            Ev::P(_, v) => Ok(Some(Datum::new(Time(t), Quantity::new(*v, unit)))),
            Ev::N(_) => Ok(None),
            Ev::Er(_, c) => Err(err_val(*c)),
        });
        let u = s.update();
        out.push((u, s.get()));
    }
    out
}

/// Two streams (of the same or of different kinds) alive at once and fed in lockstep, the second
/// one's clock offset by 0.13 s: each must give what it gives alone. Shared state - a `static` or
/// thread-local "previous sample time" - breaks this.
pub fn twin_history(ka: usize, kb: usize, ha: &[Ev], hb: &[Ev], e: &mut Eng) -> u64 {
    let (t0a, t0b) = (-3 * S, -3 * S + 130_000_000);
    let n = ha.len().min(hb.len());
    let r = guard(|| {
        let solo_a = run_real(ka, &ha[..n], t0a, natural_unit(ka));
        let solo_b = run_real(kb, &hb[..n], t0b, natural_unit(kb));
        let (mut a, mut b) = (make(ka), make(kb));
        let (mut ta, mut tb) = (t0a, t0b);
        let mut both = Vec::with_capacity(n);
        let conv = |ev: &Ev, t: i64, k: usize| match ev {
            Ev::P(_, v) => Ok(Some(Datum::new(Time(t), Quantity::new(*v, natural_unit(k))))),
            Ev::N(_) => Ok(None),
            Ev::Er(_, c) => Err(err_val(*c)),
        };
        for k in 0..n {
            ta += ev_dt(&ha[k]);
            a.feed(conv(&ha[k], ta, ka));
            let ua = a.update();
            tb += ev_dt(&hb[k]);
            b.feed(conv(&hb[k], tb, kb));
            let ub = b.update();
            let gb = b.get();
            let ga = a.get();
            both.push(((ua, ga), (ub, gb)));
        }
        (solo_a, solo_b, both)
    });
    e.checks += n as u64;
    match r {
        Err(m) => e.violation("calc:twins-panic", n, || format!("{} on [{}] and {} on [{}] in lockstep panicked: {}", KINDS[ka], show(ha), KINDS[kb], show(hb), m)),
        Ok((sa, sb, both)) => {
            for k in 0..n {
                if both[k].0 != sa[k] || both[k].1 != sb[k] {
                    e.violation(&format!("calc:{}:instances-interfere", KINDS[if both[k].0 != sa[k] { ka } else { kb }]), k + 1, || {
                        format!(
                            "{} fed [{}] and {} fed [{}] in lockstep: at step {} they give {} and {} but alone they give {} and {}",
                            KINDS[ka], show(&ha[..=k]), KINDS[kb], show(&hb[..=k]), k, both[k].0 .1.show(), both[k].1 .1.show(), sa[k].1.show(), sb[k].1.show()
                        )
                    });
                    break;
                }
            }
            e.outcome(h64(&both));
        }
    }
    (4 * n) as u64
}

/// Reference models. Each returns, per event, the expected present value (up to three
/// components) or None for "absent" (for integral/derivative an erroring input makes get()
/// return that error, which is C05's clause; here only Some/None matters at P and N events).
struct Ref {
    kind: usize,
    samples: Vec<(i64, Tr)>, // present samples since the last reset
    acc1: Option<Tr>,        // first running sum
    acc2: Option<Tr>,        // second running sum
    prev_d1: Option<Tr>,     // previous first difference (position_to_state)
}
impl Ref {
    fn new(kind: usize) -> Ref {
        Ref { kind, samples: vec![], acc1: None, acc2: None, prev_d1: None }
    }
    fn reset(&mut self) {
        self.samples.clear();
        self.acc1 = None;
        self.acc2 = None;
        self.prev_d1 = None;
    }
    /// feed one present sample; returns expected components if the output must be present
    fn sample(&mut self, t: i64, v: f32) -> Option<[Option<Tr>; 3]> {
        let cur = Tr::exact(v);
        let prev = self.samples.last().copied();
        self.samples.push((t, cur));
        let n = self.samples.len();
        let two = Tr::exact(2.0);
        match self.kind {
            0 => {
                let (tp, p) = prev?;
                let add = secs(t - tp).mul(p.add(cur)).div(two);
                let tot = match self.acc1 {
                    Some(a) => add.add(a),
                    None => add,
                };
                self.acc1 = Some(tot);
                Some([Some(tot), None, None])
            }
            1 => {
                let (tp, p) = prev?;
                Some([Some(cur.sub(p).div(secs(t - tp))), None, None])
            }
            2 => {
                // acceleration -> velocity (sum from sample 2) -> position (sum from sample 3)
                let (tp, p) = prev?;
                let dt = secs(t - tp);
                let vadd = p.add(cur).div(two).mul(dt);
                match self.acc1 {
                    None => {
                        self.acc1 = Some(vadd);
                        None
                    }
                    Some(oldv) => {
                        let newv = oldv.add(vadd);
                        let padd = oldv.add(newv).div(two).mul(dt);
                        let pos = match self.acc2 {
                            Some(op) => op.add(padd),
                            None => padd,
                        };
                        self.acc1 = Some(newv);
                        self.acc2 = Some(pos);
                        let _ = n;
                        Some([Some(pos), Some(newv), Some(cur)])
                    }
                }
            }
            3 => {
                let (tp, p) = prev?;
                let dt = secs(t - tp);
                let acc = cur.sub(p).div(dt);
                let padd = p.add(cur).div(two).mul(dt);
                let pos = match self.acc1 {
                    Some(op) => op.add(padd),
                    None => padd,
                };
                self.acc1 = Some(pos);
                Some([Some(pos), Some(cur), Some(acc)])
            }
            _ => {
                let (tp, p) = prev?;
                let dt = secs(t - tp);
                let vel = cur.sub(p).div(dt);
                let r = match self.prev_d1 {
                    None => None,
                    Some(ov) => Some([Some(cur), Some(vel), Some(vel.sub(ov).div(dt))]),
                };
                self.prev_d1 = Some(vel);
                r
            }
        }
    }
}

fn out_unit_code(kind: usize, unit: Unit) -> u32 {
    if !cfg!(feature = "dimcheck") {
        return 0;
    }
    let (m, s) = unit_exps(unit);
    match kind {
        0 => (m * 1000 + s + 1) as u32,
        1 => (m * 1000 + s - 1) as u32,
        _ => 0,
    }
}

pub fn check_history(kind: usize, h: &[Ev], unit: Unit, e: &mut Eng, meta: bool) -> u64 {
    let name = KINDS[kind];
    let n = h.len();
    let t0 = -3 * S;
    let mut applied = n as u64;
    let main = match guard(|| run_real(kind, h, t0, unit)) {
        Ok(m) => m,
        Err(m) => {
            e.violation(&format!("calc:{}:panic", name), n, || format!("history [{}] panicked: {}", show(h), m));
            return applied;
        }
    };
    e.outcome(h64(&(kind, &main)));
    let mut r = Ref::new(kind);
    let mut t = t0;
    let ignores_n = kind >= 2;
    let mut nontrivial = false;
    let (mut n_exact, mut n_tol) = (0i128, 0i128);
    for (k, ev) in h.iter().enumerate() {
        t += ev_dt(ev);
        e.checks += 1;
        let (u, got) = main[k];
        match ev {
            Ev::P(_, v) => {
                let exp = r.sample(t, *v);
                if r.samples.len() >= 3 {
                    nontrivial = true;
                }
                let ok = match exp {
                    None => u == 0 && got.is_none(),
                    Some(c) => {
                        let mut ok = u == 0 && got.is_some() && got.time == t;
                        for i in 0..3 {
                            if let Some(x) = c[i] {
                                if x.robust {
                                    n_exact += 1;
                                } else {
                                    n_tol += 1;
                                }
                                ok = ok && x.agrees(got.f(i), 8.0);
                            }
                        }
                        if kind < 2 {
                            ok = ok && got.bits[3] == out_unit_code(kind, unit);
                        }
                        ok
                    }
                };
                if !ok {
                    let key = if got.is_some() && exp.is_some() && got.time != t {
                        "time"
                    } else if got.is_some() && exp.is_some() && kind < 2 && got.bits[3] != out_unit_code(kind, unit) {
                        "unit"
                    } else {
                        "value"
                    };
                    e.violation(&format!("calc:{}:{}", name, key), k + 1, || {
                        format!(
                            "{} history [{}] (input unit {:?}): after event {} update()={} get()={} but the reference gives {} at time {}",
                            name,
                            show(&h[..=k]),
                            unit,
                            k,
                            u,
                            got.show(),
                            match exp {
                                None => "absent".to_string(),
                                Some(c) => format!("{:?}", c.iter().flatten().map(|x| x.show()).collect::<Vec<_>>()),
                            },
                            t
                        )
                    });
                    break;
                }
            }
            Ev::N(_) => {
                if !ignores_n {
                    r.reset();
                    if !(u == 0 && got.is_none()) {
                        e.violation(&format!("calc:{}:absent-input", name), k + 1, || format!("history [{}]: after an absent input get() = {}", show(&h[..=k]), got.show()));
                        break;
                    }
                }
            }
            Ev::Er(_, c) => {
                r.reset();
                if u != obs_unit(&Err(err_val(*c))) {
                    e.violation(&format!("calc:{}:update-result", name), k + 1, || format!("history [{}]: update() did not return the input's error", show(&h[..=k])));
                    break;
                }
            }
        }
    }
    if nontrivial {
        e.nontrivial += 1;
    }
    e.count("bit_exact_reference_checks", n_exact);
    e.count("tolerance_reference_checks", n_tol);
    if meta {
        for shift in [-1_000_000_000_000_000i64, 11, 100_000_000_000_000_000] {
            if let Ok(sh) = guard(|| run_real(kind, h, t0 + shift, unit)) {
                applied += n as u64;
                for k in 0..n {
                    e.checks += 1;
                    let (a, b) = (main[k], sh[k]);
                    let same = a.0 == b.0 && a.1.tag == b.1.tag && a.1.bits == b.1.bits && (a.1.tag != 1 || a.1.time + shift == b.1.time);
                    if !same {
                        e.violation(&format!("calc:{}:shift-variance", name), k + 1, || {
                            format!("{} history [{}]: with all timestamps shifted by {} event {} gives {} instead of {}", name, show(&h[..=k]), shift, k, b.1.show(), a.1.show())
                        });
                        break;
                    }
                }
            }
        }
    }
    applied
}

pub fn exact_syms() -> Vec<Ev> {
    let mut v = Vec::new();
    for dt in [S / 4, S / 2, S, 2 * S] {
        for x in [0.0f32, 1.0, -2.0, 3.0] {
            v.push(Ev::P(dt, x));
        }
    }
    v.push(Ev::N(S));
    v.push(Ev::Er(S, 1));
    v.push(Ev::Er(S, 0)); // the crate's own Error::FromNone
    v
}
pub fn broad_syms() -> Vec<Ev> {
    let mut v = Vec::new();
    for dt in [1_000i64, 1_000_000, S / 2, S / 2 + (1i64 << 32), S, S + (1i64 << 32), 3600 * S] {
        for x in [0.1f32, -7.3, 1000.0] {
            v.push(Ev::P(dt, x));
        }
    }
    v.push(Ev::N(S));
    v.push(Ev::Er(S, 1));
    v
}

/// Unit clause: 49 input units x short histories. integral/derivative: output unit =
/// input*s resp. input/s; to-state converters panic iff a present sample is ill-dimensioned
/// (checked builds).
fn units(e: &mut Eng) {
    let hs: Vec<Vec<Ev>> = vec![
        vec![Ev::P(S, 1.0), Ev::P(S, 3.0), Ev::P(2 * S, -2.0)],
        vec![Ev::N(S), Ev::P(S, 1.0), Ev::P(S / 2, 3.0)],
        vec![Ev::Er(S, 1), Ev::N(S), Ev::Er(S, 1)],
        vec![Ev::P(S, 1.0), Ev::Er(S, 1), Ev::P(S, 3.0)],
    ];
    for m in -3..=3i8 {
        for s in -3..=3i8 {
            let unit = Unit::new(m, s);
            for kind in 0..5 {
                for h in &hs {
                    e.executions += 1;
                    e.states += 1;
                    e.transitions += h.len() as u64;
                    e.checks += 1;
                    let has_p = h.iter().any(|x| matches!(x, Ev::P(..)));
                    let right = unit_exps(unit) == unit_exps(natural_unit(kind));
                    let must_panic = cfg!(feature = "dimcheck") && kind >= 2 && has_p && !right;
                    if !right {
                        e.nontrivial += 1;
                    }
                    let r = guard(|| run_real(kind, h, 0, unit));
                    e.outcome(h64(&(kind, m, s, r.as_ref().ok())));
                    match (r, must_panic) {
                        (Err(_), true) => {}
                        (Err(msg), false) => e.violation(&format!("calc:{}:unit-panic", KINDS[kind]), h.len(), || {
                            format!("{} with input unit mm^{} s^{} history [{}] panicked: {}", KINDS[kind], m, s, show(h), msg)
                        }),
                        (Ok(_), true) => e.violation(&format!("calc:{}:unit-not-rejected", KINDS[kind]), h.len(), || {
                            format!("{} accepted input unit mm^{} s^{} (history [{}]) although dimension checking is on", KINDS[kind], m, s, show(h))
                        }),
                        (Ok(_), false) => {
                            if kind < 2 || right {
                                check_history(kind, h, unit, e, false);
                            }
                        }
                    }
                }
            }
        }
    }
    e.sample(|| "derivative with input unit mm^2 s^-3, history [P(+1s,1),P(+1s,3),P(+2s,-2)] -> unit mm^2 s^-4".to_string());
}

pub fn run(ctx: &Ctx) -> Vec<Eng> {
    let budget = Budget::secs(if ctx.thorough { 2000 } else { 120 });
    let depth = if ctx.thorough { 6 } else { 5 };
    let syms = exact_syms();
    let mut e1 = Eng::new(
        "c10-seqs-exact",
        "all histories of exactly `depth` events over {P(dt,v): dt in {0.25,0.5,1,2}s, v in {0,1,-2,3}} + {N, E1 = Other(1), FromNone} for integral, derivative, acceleration-, velocity-, position-to-state; after every present sample get() must equal the reference (trapezoid sums / backward differences applied once or twice, absent until 2 resp. 3 samples, newest sample's time, unit input*s or input/s), bit-exact where certified; timestamps shifted by -1e15, +11, +1e17 ns must give bit-identical values; non-trivial = at least three samples since the last reset",
        &format!("depth {} => {}^{} histories x 5 streams", depth, syms.len(), depth),
    );
    for kind in 0..5 {
        par_seqs(&mut e1, syms.len(), depth, budget, |seq, e| {
            let h: Vec<Ev> = seq.iter().map(|&s| syms[s]).collect();
            let a = check_history(kind, &h, natural_unit(kind), e, true);
            e.sample(|| format!("{} [{}]", KINDS[kind], show(&h)));
            a
        });
    }
    let bdepth = if ctx.thorough { 5 } else { 4 };
    let bs = broad_syms();
    let mut e2 = Eng::new(
        "c10-seqs-broad",
        "same over the broad alphabet {P(dt,v): dt in {1us,1ms,0.5s,0.5s+2^32ns,1s,1s+2^32ns,1h} (pairs congruent modulo 2^32 ns on both sides of 5 s), v in {0.1,-7.3,1000}} + {N,E1}: f64 reference with running forward-error bound (8x)",
        &format!("depth {} => 23^{} histories x 5 streams", bdepth, bdepth),
    );
    for kind in 0..5 {
        par_seqs(&mut e2, bs.len(), bdepth, budget, |seq, e| {
            let h: Vec<Ev> = seq.iter().map(|&s| bs[s]).collect();
            let a = check_history(kind, &h, natural_unit(kind), e, true);
            e.sample(|| format!("{} [{}]", KINDS[kind], show(&h)));
            a
        });
    }
    let (hz, k) = if ctx.thorough { (48, 3) } else { (40, 2) };
    let mut e3 = Eng::new(
        "c10-deviations",
        "all histories of exactly H events differing from the default stream P(1 s, cycle {0,1,-2,3}) in at most k positions, deviations {N, E1, P(0.25 s), P(2 s), P(1 us), P(1 h), P(1 s + 2^32 ns), P(2^24+1 ns), P(2^31 ns), P(d + 2^32 ns) for the short deviation interval d}; 5 streams",
        &format!("H={} k={}", hz, k),
    );
    let cases = deviation_cases(hz, 10, k);
    let cyc = [0.0f32, 1.0, -2.0, 3.0];
    for kind in 0..5 {
        par_cases(&mut e3, &cases, budget, |c, e| {
            let mut h: Vec<Ev> = (0..hz).map(|i| Ev::P(S, cyc[i % 4])).collect();
            for &(p, a) in c {
                let v = cyc[(p as usize + 1) % 4];
                h[p as usize] = match a {
                    0 => Ev::N(S),
                    1 => Ev::Er(S, 1),
                    2 => Ev::P(S / 4, v),
                    3 => Ev::P(2 * S, v),
                    4 => Ev::P(1000, v),
                    5 => Ev::P(3600 * S, v),
                    6 => Ev::P(S + (1i64 << 32), v),
                    7 => Ev::P((1i64 << 24) + 1, v),
                    8 => Ev::P(1i64 << 31, v),
                    _ => Ev::P(S / 4 + (1i64 << 32), v),
                };
            }
            e.executions += 1;
            e.states += 1;
            e.max_depth = e.max_depth.max(hz as u64);
            e.transitions += check_history(kind, &h, natural_unit(kind), e, c.len() < 3);
            if c.len() == k {
                e.sample(|| format!("{} [{}]", KINDS[kind], show(&h)));
            }
        });
    }
    let (ph, maxp) = if ctx.thorough { (64, 5) } else { (40, 4) };
    let mut e3b = Eng::new(
        "c10-periodic",
        "periodic histories: every primitive word of length <= p over {P(1 s), P(0.25 s), P(2 s), N, E1} repeated to H events (values cycle through {0,1,-2,3}), and every history differing from one of these in exactly one position; 5 streams (long runs with many resets in a regular pattern)",
        &format!("H={} p<={} => {} histories x 5 streams", ph, maxp, periodic_count(5, maxp, ph)),
    );
    for kind in 0..5 {
        par_periodic(&mut e3b, 5, maxp, ph, budget, |seq, e| {
            let h: Vec<Ev> = seq
                .iter()
                .enumerate()
                .map(|(i, &s)| match s {
                    0 => Ev::P(S, cyc[i % 4]),
                    1 => Ev::P(S / 4, cyc[i % 4]),
                    2 => Ev::P(2 * S, cyc[i % 4]),
                    3 => Ev::N(S),
                    _ => Ev::Er(S, 1),
                })
                .collect();
            e.sample(|| format!("{} [{}]", KINDS[kind], show(&h)));
            check_history(kind, &h, natural_unit(kind), e, false)
        });
        par_long(&mut e3b, 5, 2, &LONG_LENS, budget, |seq, e| {
            let h: Vec<Ev> = seq
                .iter()
                .enumerate()
                .map(|(i, &s)| match s {
                    0 => Ev::P(S, cyc[i % 4]),
                    1 => Ev::P(S / 4, cyc[i % 4]),
                    2 => Ev::P(2 * S, cyc[i % 4]),
                    3 => Ev::N(S),
                    _ => Ev::Er(S, 1),
                })
                .collect();
            check_history(kind, &h, natural_unit(kind), e, false)
        });
    }
    e3b.bounds.push_str(&format!("; plus long runs: every primitive word of length <= 2 repeated to 255..257 and 511..513 events followed by one event of each kind ({} histories x 5 streams)", long_count(5, 2, &LONG_LENS)));
    let grid = ratio_grid(if ctx.thorough { 32 } else { 16 }, 6);
    let mut e3c = Eng::new(
        "c10-ratio-sweeps",
        "8-sample histories in which (a) consecutive sampling intervals alternate between d0 and d0*r (d0 in {7 ms, 0.25 s, 37 s}, pattern and its inverse), (b) consecutive values are v0*q^k (exponent pattern 0,1,2,1,0,1,1,0; v0 in {1.7, -640}: slowly drifting and fast changing signals), for every ratio of a dense grid (2^(1/16) (thorough 2^(1/32)) steps over 2^-6..2^6 plus 1 +- 2^-k, k = 3..20); 5 streams; reference with forward-error bound",
        &format!("{} ratios x 8 sweeps x 5 streams", grid.len()),
    );
    {
        let pat_a: [i32; 8] = [0, 0, 1, 1, 0, 1, 0, 0];
        let vpat: [i32; 8] = [0, 1, 2, 1, 0, 1, 1, 0];
        let mut cases: Vec<(u8, usize, f64)> = Vec::new();
        for &r in &grid {
            for k in 0..6 {
                cases.push((0, k, r));
            }
            for k in 0..2 {
                cases.push((1, k, r));
            }
        }
        for kind in 0..5 {
            par_cases(&mut e3c, &cases, budget, |&(what, k, r), e| {
                e.executions += 1;
                e.states += 1;
                e.max_depth = e.max_depth.max(8);
                let h: Vec<Ev> = if what == 0 {
                    let d0 = [7_000_000i64, S / 4, 37 * S][k % 3] as f64;
                    let inv = k >= 3;
                    (0..8).map(|i| Ev::P((d0 * if (pat_a[i] == 1) != inv { r } else { 1.0 }).round().max(1.0) as i64, cyc[i % 4])).collect()
                } else {
                    let v0 = [1.7f64, -640.0][k];
                    (0..8).map(|i| Ev::P([S / 2, 700_000_000][i % 2], (v0 * r.powi(vpat[i])) as f32)).collect()
                };
                e.sample(|| format!("{} sweep {} #{} ratio {:.5} [{}]", KINDS[kind], what, k, r, show(&h)));
                e.transitions += check_history(kind, &h, natural_unit(kind), e, false);
            });
        }
    }
    let tdepth = if ctx.thorough { 4 } else { 3 };
    let mut e3d = Eng::new(
        "c10-interleaved-twins",
        "two streams alive at once and fed in lockstep (the second one's clock 0.13 s ahead): every history of `depth` events over {P(0.5 s,1), P(1 s,-2), P(0.25 s,3), N, E1} for the first against 6 partner histories of the second, for every ordered pair of the 5 stream kinds: every update result and output of each must equal its solo run (state shared between instances breaks this)",
        &format!("depth {} => 5^{} histories x 6 partners x 25 kind pairs", tdepth, tdepth),
    );
    {
        let tsym = [Ev::P(S / 2, 1.0), Ev::P(S, -2.0), Ev::P(S / 4, 3.0), Ev::N(S), Ev::Er(S, 1)];
        let partners: Vec<Vec<usize>> = vec![vec![0, 0, 0, 0], vec![1, 2, 0, 1], vec![0, 3, 1, 2], vec![4, 0, 1, 0], vec![2, 2, 1, 1], vec![3, 3, 0, 0]];
        let partners = &partners;
        let nh = ipow(5, tdepth);
        for ka in 0..5 {
            for kb in 0..5 {
                par(&mut e3d, nh * partners.len() as u64, 64, budget, |idx, e| {
                    let (ia, ip) = (idx / partners.len() as u64, (idx % partners.len() as u64) as usize);
                    let mut da = vec![0usize; tdepth];
                    decode(ia, 5, &mut da);
                    let ha: Vec<Ev> = da.iter().map(|&i| tsym[i]).collect();
                    let hb: Vec<Ev> = partners[ip][..tdepth].iter().map(|&i| tsym[i]).collect();
                    e.executions += 1;
                    e.states += 1;
                    e.nontrivial += 1;
                    e.max_depth = e.max_depth.max(2 * tdepth as u64);
                    e.transitions += twin_history(ka, kb, &ha, &hb, e);
                });
            }
        }
    }
    let mut e4 = Eng::new(
        "c10-units",
        "49 input units (7x7 grid) x 4 short histories x 5 streams: output unit of integral/derivative = input unit times/over seconds; to-state converters panic exactly when a present sample is wrongly dimensioned (dimension-checked build); non-trivial = unit differs from the stream's natural one",
        "49 x 4 x 5",
    );
    units(&mut e4);
    let ew = crate::c05::wiring_engine("c10-input-wirings", &[8, 9, 10, 11, 12], 5, budget);
    vec![e1, e2, e3, e3b, e3c, e3d, e4, ew]
}
