//! C18 — Time and integer quantities: exact integer arithmetic, faithful float conversion.
use crate::env::*;
use crate::mc::*;
use crate::Ctx;
use rrtk::*;

fn boundary_alphabet() -> Vec<i64> {
    let mut v = vec![0i64];
    for x in [1i64, 2, 3, 7, (1 << 24) - 1, (1 << 24) + 1, 1 << 31, (1 << 53) - 1, (1 << 53) + 1, 1 << 62, 1_000_000_000, 30_000_001_024] {
        v.push(x);
        v.push(-x);
    }
    v
}

fn integer_ops(e: &mut Eng) {
    let al = boundary_alphabet();
    for &a in &al {
        for &b in &al {
            e.executions += 1;
            e.states += 1;
            e.checks += 1;
            if a < 0 || b < 0 {
                e.nontrivial += 1;
            }
            let mut bad: Vec<String> = Vec::new();
            let mut chk = |name: &str, got: Result<i64, String>, want: Option<i64>| {
                if let Some(w) = want {
                    e.transitions += 1;
                    match got {
                        Ok(g) if g == w => {}
                        other => bad.push(format!("{} gave {:?}, i64 arithmetic gives {}", name, other, w)),
                    }
                }
            };
            let (ta, tb) = (Time(a), Time(b));
            let (ia, ib) = (DimensionlessInteger(a), DimensionlessInteger(b));
            chk("Time+Time", guard(|| (ta + tb).0), a.checked_add(b));
            chk("Time-Time", guard(|| (ta - tb).0), a.checked_sub(b));
            chk("Time+=Time", guard(|| { let mut x = ta; x += tb; x.0 }), a.checked_add(b));
            chk("Time-=Time", guard(|| { let mut x = ta; x -= tb; x.0 }), a.checked_sub(b));
            chk("-Time", guard(|| (-ta).0), a.checked_neg());
            chk("Time*Int", guard(|| (ta * ib).0), a.checked_mul(b));
            chk("Time*=Int", guard(|| { let mut x = ta; x *= ib; x.0 }), a.checked_mul(b));
            chk("Int*Time", guard(|| (ia * tb).0), a.checked_mul(b));
            if b != 0 {
                chk("Time/Int", guard(|| (ta / ib).0), a.checked_div(b));
                chk("Time/=Int", guard(|| { let mut x = ta; x /= ib; x.0 }), a.checked_div(b));
                chk("Int/Int", guard(|| (ia / ib).0), a.checked_div(b));
                chk("Int/=Int", guard(|| { let mut x = ia; x /= ib; x.0 }), a.checked_div(b));
            }
            chk("Int+Int", guard(|| (ia + ib).0), a.checked_add(b));
            chk("Int-Int", guard(|| (ia - ib).0), a.checked_sub(b));
            chk("Int*Int", guard(|| (ia * ib).0), a.checked_mul(b));
            chk("Int+=Int", guard(|| { let mut x = ia; x += ib; x.0 }), a.checked_add(b));
            chk("Int-=Int", guard(|| { let mut x = ia; x -= ib; x.0 }), a.checked_sub(b));
            chk("Int*=Int", guard(|| { let mut x = ia; x *= ib; x.0 }), a.checked_mul(b));
            chk("-Int", guard(|| (-ia).0), a.checked_neg());
            drop(chk);
            for m in bad {
                let name = m.split(' ').next().unwrap().to_string();
                e.violation(&format!("integer:{}", name), 1, || format!("operands {} and {}: {}", a, b, m));
            }
            e.outcome(h64(&(a, b)));
        }
        // identity conversions
        e.checks += 1;
        let ok = i64::from(Time::from(a)) == a && i64::from(DimensionlessInteger::from(a)) == a && Time::new(a).0 == a && DimensionlessInteger::new(a).0 == a && Time(a) == Time::from(a);
        if !ok {
            e.violation("integer:identity-conversion", 1, || format!("value {}", a));
        }
        // ordering is i64 ordering
        for &b in &al {
            if (Time(a) < Time(b)) != (a < b) || (DimensionlessInteger(a) < DimensionlessInteger(b)) != (a < b) {
                e.violation("integer:ordering", 1, || format!("{} vs {}", a, b));
            }
        }
    }
    e.sample(|| "Time(-7) / DimensionlessInteger(2) = Time(-3) (i64 division truncates toward zero)".to_string());
}

/// exact check |q - t/1e9| <= 2 ulp(q) in integer arithmetic
pub fn time_to_quantity_ok(t: i64, q: f32) -> bool {
    if !q.is_finite() {
        return false;
    }
    if t == 0 {
        return q == 0.0;
    }
    let bits = q.to_bits();
    let sign: i128 = if bits >> 31 == 1 { -1 } else { 1 };
    let ex = ((bits >> 23) & 0xff) as i32;
    let frac = (bits & 0x7f_ffff) as i128;
    let (mant, exp) = if ex == 0 { (frac, -149) } else { (frac | 0x80_0000, ex - 150) };
    // q = sign * mant * 2^exp ; compare mant*1e9*2^exp with t, tolerance 2 * 2^exp * 1e9
    let lhs = sign * mant * 1_000_000_000i128;
    let (l, r, tol) = if exp >= 0 {
        if exp > 40 {
            return false;
        }
        (lhs << exp, t as i128, 2_000_000_000i128 << exp)
    } else {
        if -exp > 60 {
            // |q| < 2^-36: t must be tiny; compare in f64 (exact enough at this scale)
            return ((q as f64) * 1e9 - t as f64).abs() <= 2.0 * (2.0f64).powi(exp) * 1e9;
        }
        (lhs, (t as i128) << (-exp), 2_000_000_000i128)
    };
    (l - r).abs() <= tol
}

fn t2q_value(len: u32, pat: u64, class: u32, neg: bool, pmax: u32) -> i64 {
    // a value of exactly `len` bits: leading 1, then up to 12 pattern bits, then a low-bit class
    let mut v: u64 = 1u64 << (len - 1);
    let rest = len - 1;
    let pbits = rest.min(pmax);
    v |= (pat & ((1 << pbits) - 1)) << (rest - pbits);
    let low = rest - pbits;
    if low > 0 {
        let mask = (1u64 << low) - 1;
        let half = 1u64 << (low - 1);
        v |= match class {
            0 => 0,
            1 => 1,
            2 => half,
            3 => (half + 1) & mask,
            4 => half.wrapping_sub(1) & mask,
            _ => mask,
        };
    }
    let v = v as i64;
    if neg {
        -v
    } else {
        v
    }
}

/// decimal-structured times: whole seconds s * 1e9 (and +-1 ns) for s from a boundary alphabet of
/// second counts (powers of two +-1 up to 2^33, powers of ten, k * 10^j), the values a clock that
/// ticks in whole seconds produces; the binary-structured sweep does not contain them.
fn time_to_quantity_decimal(e: &mut Eng) {
    let mut secs: Vec<i64> = vec![0, 1, 2, 3, 7, 10, 11, 59, 60, 3600, 86_400, 31_536_000];
    for k in 0..=33u32 {
        for d in [-1i64, 0, 1] {
            secs.push((1i64 << k) + d);
        }
    }
    let mut p10: i64 = 1;
    for _ in 0..=9 {
        for k in 1..=9i64 {
            secs.push(k * p10);
            secs.push(k * p10 + 1);
            secs.push(k * p10 - 1);
        }
        p10 *= 10;
    }
    secs.retain(|&s| s >= 0 && s <= 9_223_372_035);
    secs.sort();
    secs.dedup();
    let mut prev: Option<(i64, f32)> = None;
    for sign in [1i64, -1] {
        let mut all: Vec<i64> = Vec::new();
        for &s in &secs {
            for d in [-1i64, 0, 1] {
                if let Some(t) = s.checked_mul(1_000_000_000).and_then(|x| x.checked_add(d)) {
                    all.push(sign * t);
                }
            }
        }
        all.sort();
        all.dedup();
        prev = None;
        for &t in &all {
            e.executions += 1;
            e.states += 1;
            e.transitions += 1;
            e.checks += 1;
            if t.abs() >= 1 << 24 {
                e.nontrivial += 1;
            }
            let q = Quantity::from(Time(t));
            if !time_to_quantity_ok(t, q.value) {
                e.violation("time-to-quantity:value", 1, || format!("Quantity::from(Time({})) = {:?} which is not within 2 ulp of {} s", t, q, t as f64 / 1e9));
            }
            if let Some((pt, pq)) = prev {
                if pt < t && pq > q.value {
                    e.violation("time-to-quantity:monotone", 1, || format!("Time({}) -> {:?} but Time({}) -> {:?}", pt, pq, t, q.value));
                }
            }
            prev = Some((t, q.value));
            match Time::try_from(q) {
                Ok(back) => {
                    let lim = ((t as i128).abs() >> 22) + 1;
                    if ((back.0 as i128) - (t as i128)).abs() > lim {
                        e.violation("time-round-trip", 1, || format!("Time({}) -> {:?} -> Time({})", t, q.value, back.0));
                    }
                }
                Err(_) => e.violation("time-round-trip", 1, || format!("Time::try_from(Quantity::from(Time({}))) failed", t)),
            }
            // the mixed operators see the same conversion
            let m = Quantity::new(2.0, MILLIMETER_PER_SECOND) * Time(t);
            if m.value != 2.0 * q.value {
                e.violation("units:mixed:q*t:differs-from-converted", 1, || format!("2 mm/s * Time({}) = {:?}", t, m));
            }
        }
    }
    let _ = prev;
    e.sample(|| "Time(3_000_000_000 s as ns) -> 3.0e9 s; Time(2^31 s as ns - 1)".to_string());
}

fn time_to_quantity(e: &mut Eng, thorough: bool, budget: Budget) {
    // items: (len 1..=63) x (4096 patterns)
    let pat_bits: u64 = if thorough { 1 << 16 } else { 1 << 13 };
    let n = 63 * pat_bits;
    par(e, n, 4096, budget, |idx, e| {
        let len = (idx / pat_bits) as u32 + 1;
        let pat = idx % pat_bits;
        let mut prev: Option<(i64, f32)> = None;
        let mut vals: Vec<i64> = Vec::with_capacity(12);
        for class in 0..6 {
            for neg in [false, true] {
                let t = t2q_value(len, pat, class, neg, if thorough { 16 } else { 13 });
                vals.push(t);
            }
        }
        vals.sort();
        vals.dedup();
        for &t in &vals {
            e.executions += 1;
            e.transitions += 1;
            e.checks += 1;
            let q = Quantity::from(Time(t));
            if len > 24 {
                e.nontrivial += 1;
            }
            if !time_to_quantity_ok(t, q.value) || (cfg!(feature = "dimcheck") && unit_exps(q.unit) != (0, 1)) {
                e.violation("time-to-quantity:value", 1, || format!("Quantity::from(Time({})) = {:?} which is not within 2 ulp of {} s", t, q, t as f64 / 1e9));
            }
            if let Some((pt, pq)) = prev {
                if pt < t && pq > q.value {
                    e.violation("time-to-quantity:monotone", 1, || format!("Time({}) -> {:?} but Time({}) -> {:?}", pt, pq, t, q.value));
                }
            }
            prev = Some((t, q.value));
            // round trip
            if let Ok(back) = Time::try_from(q) {
                let lim = ((t as i128).abs() >> 22) + 1;
                if ((back.0 as i128) - (t as i128)).abs() > lim {
                    e.violation("time-round-trip", 1, || format!("Time({}) -> {:?} -> Time({}) differs by more than |t| 2^-22 + 1 ns", t, q.value, back.0));
                }
            } else {
                e.violation("time-round-trip", 1, || format!("Time::try_from(Quantity::from(Time({}))) failed", t));
            }
        }
        e.states += vals.len() as u64;
        if idx % 4099 == 0 {
            e.outcome(h64(&vals));
        }
        if idx % 50_021 == 0 {
            e.sample(|| format!("bit length {} pattern {:#x}: values {:?}", len, pat, &vals[..vals.len().min(4)]));
        }
    });
}

/// |result - v*1e9| <= one f32 rounding of the product + 1 ns of truncation
fn quantity_to_time_ok(v: f32, t: i64) -> bool {
    let bits = v.to_bits();
    let sign: i128 = if bits >> 31 == 1 { -1 } else { 1 };
    let ex = ((bits >> 23) & 0xff) as i32;
    let frac = (bits & 0x7f_ffff) as i128;
    let (mant, exp) = if ex == 0 { (frac, -149) } else { (frac | 0x80_0000, ex - 150) };
    let p = sign * mant * 1_000_000_000i128; // product = p * 2^exp
    if exp >= 0 {
        if exp > 40 {
            return false;
        }
        let prod = p << exp;
        let tol = (prod.abs() >> 24) + 1 + 1;
        ((t as i128) - prod).abs() <= tol
    } else {
        let sh = (-exp) as u32;
        if sh > 100 {
            return t == 0;
        }
        // compare t*2^sh with p ; tolerance (|p| >> 24) + 2 * 2^sh
        if sh > 64 {
            return t == 0; // |v * 1e9| < 2^-10
        }
        let lhs = (t as i128) << sh;
        let tol = (p.abs() >> 24) + (2i128 << sh);
        (lhs - p).abs() <= tol
    }
}

fn quantity_to_time(e: &mut Eng, thorough: bool, budget: Budget) {
    // all f32 bit patterns below 9e9 in magnitude: 0 ..= bits(9e9) for both signs
    let top = 9.0e9f32.to_bits() as u64; // positive finite values with bits < top are < 9e9
    let step: u64 = 1; // the complete domain takes a few seconds: both tiers sweep it
    let _ = thorough;
    let n = (top + step - 1) / step;
    par(e, n, 1 << 14, budget, |i, e| {
        let b = (i * step) as u32;
        for neg in [false, true] {
            let v = f32::from_bits(b | if neg { 1 << 31 } else { 0 });
            e.executions += 1;
            e.transitions += 1;
            e.checks += 1;
            match Time::try_from(Quantity::new(v, SECOND)) {
                Ok(t) => {
                    if !quantity_to_time_ok(v, t.0) {
                        e.violation("quantity-to-time:value", 1, || format!("Time::try_from({:?} s) = Time({}) which is not value*1e9 = {} within one f32 rounding and 1 ns", v, t.0, v as f64 * 1e9));
                    }
                }
                Err(_) => e.violation("quantity-to-time:rejected-seconds", 1, || format!("Time::try_from({:?} s) failed", v)),
            }
        }
        e.nontrivial += 2;
        e.states += 2;
        if i % 4099 == 0 {
            e.outcome(h64(&b));
        }
        if i % 1_000_003 == 0 {
            e.sample(|| format!("{:?} s", f32::from_bits(b)));
        }
    });
    if false {
        // power-of-two neighbourhoods in full
        for ex in 1u32..=160 {
            for d in -64i64..=64 {
                let b = ((ex << 23) as i64 + d) as u32;
                if (b as u64) >= top {
                    continue;
                }
                let v = f32::from_bits(b);
                e.executions += 1;
                e.checks += 1;
                match Time::try_from(Quantity::new(v, SECOND)) {
                    Ok(t) if quantity_to_time_ok(v, t.0) => {}
                    other => e.violation("quantity-to-time:value", 1, || format!("Time::try_from({:?} s) = {:?}", v, other)),
                }
            }
        }
    }
}

/// Conversions are pure functions of their argument: what was converted just before must not
/// matter. Consecutive conversions of times that agree in their low 32 / 24 / 16 / 8 bits (and of
/// second values that agree in their low mantissa bits), each judged on its own.
fn conversion_pairs(e: &mut Eng) {
    let bases: [i64; 10] = [0, 1, -1, 1_000_000_000, 1_500_000_000, 7_000_000, -2_500_000_000, 123_456_789_012, 37_421_300_000, -(1 << 40) + 5];
    let deltas: [i64; 8] = [1 << 32, -(1i64 << 32), 3 << 32, 1 << 33, 1 << 24, 1 << 16, 1 << 8, -(1i64 << 16)];
    for &b in &bases {
        for &d in &deltas {
            let seq = [b, b + d, b, b + 2 * d, b + d];
            for (k, &t) in seq.iter().enumerate() {
                e.executions += 1;
                e.states += 1;
                e.transitions += 2;
                e.checks += 2;
                e.nontrivial += 1;
                let q = Quantity::from(Time(t));
                if !time_to_quantity_ok(t, q.value) {
                    e.violation("time-to-quantity:depends-on-previous-call", 2, || format!("Quantity::from(Time({})) = {:?} when called as element {} of the sequence {:?} (each call must give nanoseconds/1e9 whatever was converted before)", t, q.value, k, seq));
                    return;
                }
                let m = Quantity::new(3.0, MILLIMETER_PER_SECOND) * Time(t);
                if !time_to_quantity_ok(t, m.value / 3.0) && !(m.value == 3.0 * q.value) {
                    e.violation("time-to-quantity:depends-on-previous-call", 2, || format!("(3 mm/s) * Time({}) = {:?} as element {} of {:?}", t, m.value, k, seq));
                    return;
                }
                e.outcome(h64(&(t, q.value.to_bits())));
            }
        }
    }
    // seconds -> Time: consecutive values whose f32 bit patterns agree in the low 16 bits
    for &v in &[1.5f32, 0.001, 37.4213, -2.25, 4096.5] {
        let w = f32::from_bits(v.to_bits() ^ 0x0001_0000);
        for (k, &x) in [v, w, v].iter().enumerate() {
            e.executions += 1;
            e.checks += 1;
            let t = Time::try_from(Quantity::new(x, SECOND));
            match t {
                Ok(t) if quantity_to_time_ok(x, t.0) => {}
                other => {
                    e.violation("quantity-to-time:depends-on-previous-call", 2, || format!("Time::try_from({:?} s) = {:?} as element {} of the sequence [{:?}, {:?}, {:?}]", x, other, k, v, w, v));
                    return;
                }
            }
        }
    }
    e.sample(|| "Quantity::from(Time(1_500_000_000)) right after Quantity::from(Time(1_500_000_000 + 2^32)) must still be 1.5 s".to_string());
}

fn other_conversions(e: &mut Eng) {
    let checked = cfg!(feature = "dimcheck");
    for m in -3..=3i8 {
        for s in -3..=3i8 {
            e.executions += 2;
            e.states += 1;
            e.checks += 2;
            let u = Unit::new(m, s);
            let tr = Time::try_from(Quantity::new(1.5, u));
            let want_t = !checked || (m, s) == (0, 1);
            if tr.is_ok() != want_t || (tr.is_ok() && tr.unwrap().0 != 1_500_000_000) {
                e.violation("quantity-to-time:unit", 1, || format!("Time::try_from(1.5 with unit exponents ({},{})) = {:?}", m, s, tr));
            }
            let ir = DimensionlessInteger::try_from(Quantity::new(-7.9, u));
            let want_i = !checked || (m, s) == (0, 0);
            if ir.is_ok() != want_i || (ir.is_ok() && ir.unwrap().0 != -7) {
                e.violation("quantity-to-integer:unit", 1, || format!("DimensionlessInteger::try_from(-7.9 with unit exponents ({},{})) = {:?}", m, s, ir));
            }
            if (m, s) != (0, 1) && (m, s) != (0, 0) {
                e.nontrivial += 1;
            }
        }
    }
    for &i in &boundary_alphabet() {
        e.executions += 1;
        e.checks += 1;
        let q = Quantity::from(DimensionlessInteger(i));
        if q.value.to_bits() != (i as f32).to_bits() || (checked && unit_exps(q.unit) != (0, 0)) {
            e.violation("integer-to-quantity", 1, || format!("Quantity::from(DimensionlessInteger({})) = {:?}", i, q));
        }
        let q2 = Quantity::from(Time(i));
        if q2.value.to_bits() != (i as f32 / 1_000_000_000.0).to_bits() && !time_to_quantity_ok(i, q2.value) {
            e.violation("time-to-quantity:value", 1, || format!("Quantity::from(Time({})) = {:?}", i, q2));
        }
    }
    e.sample(|| "Time::try_from(1.5 mm) fails; Time::try_from(1.5 s) = Time(1500000000)".to_string());
}

pub fn run(ctx: &Ctx) -> Vec<Eng> {
    let budget = Budget::secs(if ctx.thorough { 2500 } else { 120 });
    let mut e1 = Eng::new(
        "c18-integer-arithmetic",
        "every Time / DimensionlessInteger operator and assign form on all ordered pairs of a boundary alphabet {0, +-1, +-2, +-3, +-7, +-(2^24+-1), +-2^31, +-(2^53+-1), +-2^62, +-1e9, +-30000001024} restricted to pairs that do not overflow: equals i64 arithmetic (division truncates toward zero); from/into i64 identity; ordering; non-trivial = a negative operand",
        "25 x 25 pairs x 19 operator forms",
    );
    integer_ops(&mut e1);
    let mut e2 = Eng::new(
        "c18-time-to-quantity",
        "for every bit length 1..63: every pattern of the leading mantissa bits x 6 low-bit classes (all-zero, ...01, exactly half, half+1, half-1, all-ones) x both signs: |Quantity::from(Time(t)) - t/1e9| <= 2 ulp (exact integer comparison), unit SECOND, monotone on consecutive enumerated values, round trip within |t| 2^-22 + 1 ns; non-trivial = more than 24 significant bits (rounding happens)",
        if ctx.thorough { "63 x 2^16 patterns x 12" } else { "63 x 2^13 patterns x 12" },
    );
    time_to_quantity(&mut e2, ctx.thorough, budget);
    time_to_quantity_decimal(&mut e2);
    e2.rule.push_str("; plus decimal-structured times: whole seconds s*1e9 and +-1 ns for s from {2^k and 2^k+-1 for k<=33, k*10^j and +-1, calendar values} up to 9.2e9 s, both signs");
    let mut e3 = Eng::new(
        "c18-quantity-to-time",
        "EVERY finite f32 second value below 9e9 in magnitude (both signs, 2.7e9 values): |Time::try_from(v s) - v*1e9| <= one f32 rounding of the product + 1 ns (exact integer comparison)",
        "",
    );
    quantity_to_time(&mut e3, ctx.thorough, budget);
    e3.bounds = format!("{} f32 values", e3.executions);
    let mut e4 = Eng::new(
        "c18-unit-conversions-and-mixed-operators",
        "Time/DimensionlessInteger try_from over all 49 grid units (only SECOND resp. DIMENSIONLESS succeed); DimensionlessInteger -> Quantity on the boundary alphabet; every mixed operator of the three implementation tables on the 49 grid units equals the Quantity operator applied to the converted operands (engine shared with C01)",
        "",
    );
    other_conversions(&mut e4);
    conversion_pairs(&mut e4);
    for m in -3..=3 {
        for s in -3..=3 {
            crate::c01::mixed_pub(&mut e4, (m, s));
        }
    }
    crate::c01::mixed_sweep(&mut e4);
    e4.bounds.push_str("49 units x 4 values x 4 Time / 4 integer operands x 24 operator forms; plus, in the unit where the additive forms are legal, the Quantity operand = converted other operand x r for every r of a dense ratio grid (2^(i/16) over 2^-4..2^4 plus 1 +- 2^-k, k = 3..20) x 3 times / 2 integers");
    vec![e1, e2, e3, e4]
}
