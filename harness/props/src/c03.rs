//! C03 — combined data carry the newest contributing timestamp; selection picks the newest.
use crate::env::*;
use crate::mc::*;
use crate::Ctx;
use rrtk::*;

/// (2^31 - 1, 2^31, 3e9, 2^32 and their negative counterparts: values whose 32-bit words sit on both sides of
/// a sign or carry boundary - a comparison done word by word, or through a narrower integer, is wrong on them)
pub const TS: [i64; 23] = [i64::MIN, i64::MIN + 1, -(1 << 32), -3_000_000_000, -(1 << 31) - 1, -(1 << 31), -1_500_000_007, -1_500_000_000, -2, -1, 0, 1, 2, 1_500_000_000, 1_500_000_007, (1 << 31) - 1, 1 << 31, 3_000_000_000, 1 << 32, (1 << 53), (1 << 53) + 1, i64::MAX - 1, i64::MAX];

fn same<T: Payload>(a: &T, b: &T) -> bool {
    let (x, y) = (a.bits(), b.bits());
    (0..4).all(|i| {
        x[i] == y[i] || (i < 3 && f32::from_bits(x[i]).is_nan() && f32::from_bits(y[i]).is_nan())
    })
}

struct Tab<'a> {
    eng: &'a mut Eng,
    impls: std::collections::BTreeSet<&'static str>,
}

impl<'a> Tab<'a> {
    /// binary form: Datum op Datum -> Datum with time max
    fn bin<T: Payload + Copy, U: Copy, O: Payload>(&mut self, id: &'static str, name: &str, a: T, b: U, f: impl Fn(Datum<T>, Datum<U>) -> Datum<O>, raw: impl Fn(T, U) -> O) {
        self.impls.insert(id);
        for &t1 in &TS {
            for &t2 in &TS {
                self.eng.executions += 1;
                self.eng.states += 1;
                self.eng.transitions += 1;
                self.eng.checks += 1;
                if t1 != t2 {
                    self.eng.nontrivial += 1;
                }
                let r = guard(|| f(Datum::new(Time(t1), a), Datum::new(Time(t2), b)));
                match r {
                    Err(m) => self.eng.violation(&format!("datum:{}:panic", name), 2, || format!("times ({}, {}): {}", t1, t2, m)),
                    Ok(d) => {
                        self.eng.outcome(h64(&(name, d.time.0, d.value.bits())));
                        if d.time.0 != t1.max(t2) {
                            self.eng.violation(&format!("datum:{}:time", name), 2, || {
                                format!("operand times ({}, {}) gave result time {} (expected the newer, {})", t1, t2, d.time.0, t1.max(t2))
                            });
                        }
                        if !same(&d.value, &raw(a, b)) {
                            self.eng.violation(&format!("datum:{}:value", name), 2, || format!("times ({}, {}): payload differs from the raw operator", t1, t2));
                        }
                    }
                }
            }
        }
    }
    /// scalar form: time unchanged
    fn sca<T: Payload + Copy, O: Payload>(&mut self, id: &'static str, name: &str, a: T, f: impl Fn(Datum<T>) -> Datum<O>, raw: impl Fn(T) -> O) {
        self.impls.insert(id);
        for &t1 in &TS {
            self.eng.executions += 1;
            self.eng.states += 1;
            self.eng.transitions += 1;
            self.eng.checks += 1;
            let r = guard(|| f(Datum::new(Time(t1), a)));
            match r {
                Err(m) => self.eng.violation(&format!("datum:{}:panic", name), 1, || format!("time {}: {}", t1, m)),
                Ok(d) => {
                    self.eng.outcome(h64(&(name, d.time.0, d.value.bits())));
                    if d.time.0 != t1 {
                        self.eng.violation(&format!("datum:{}:time", name), 1, || format!("operand time {} gave result time {} (a bare scalar must not change it)", t1, d.time.0));
                    }
                    if !same(&d.value, &raw(a)) {
                        self.eng.violation(&format!("datum:{}:value", name), 1, || format!("time {}: payload differs from the raw operator", t1));
                    }
                }
            }
        }
    }
}

fn datum_ops(eng: &mut Eng) {
    let mut t = Tab { eng, impls: Default::default() };
    let (fa, fb) = (6.5f32, -2.0f32);
    let (qa, qb) = (Quantity::new(6.5, MILLIMETER), Quantity::new(-2.0, MILLIMETER));
    let (sa, sb) = (State::new_raw(1.0, -2.0, 4.0), State::new_raw(0.5, 8.0, -16.0));
    let (ca, cb) = (Command::Velocity(3.0), Command::Velocity(-0.25));
    macro_rules! assign {
        ($op:tt) => {
            |mut a, b| {
                a $op b;
                a
            }
        };
    }
    // generic impls, one id per impl block in src/datum.rs
    t.sca("not", "not<bool>", true, |d| !d, |v| !v);
    t.sca("neg", "neg<f32>", fa, |d| -d, |v| -v);
    t.sca("neg", "neg<Quantity>", qa, |d| -d, |v| -v);
    t.sca("neg", "neg<State>", sa, |d| -d, |v| -v);
    t.sca("neg", "neg<Command>", ca, |d| -d, |v| -v);
    t.bin("add", "add<f32>", fa, fb, |a, b| a + b, |a, b| a + b);
    t.bin("add", "add<Quantity>", qa, qb, |a, b| a + b, |a, b| a + b);
    t.bin("add", "add<State>", sa, sb, |a, b| a + b, |a, b| a + b);
    t.bin("add", "add<Command>", ca, cb, |a, b| a + b, |a, b| a + b);
    t.bin("sub", "sub<f32>", fa, fb, |a, b| a - b, |a, b| a - b);
    t.bin("sub", "sub<Quantity>", qa, qb, |a, b| a - b, |a, b| a - b);
    t.bin("sub", "sub<State>", sa, sb, |a, b| a - b, |a, b| a - b);
    t.bin("sub", "sub<Command>", ca, cb, |a, b| a - b, |a, b| a - b);
    t.bin("mul", "mul<f32>", fa, fb, |a, b| a * b, |a, b| a * b);
    t.bin("mul", "mul<Quantity>", qa, qb, |a, b| a * b, |a, b| a * b);
    t.bin("div", "div<f32>", fa, fb, |a, b| a / b, |a, b| a / b);
    t.bin("div", "div<Quantity>", qa, qb, |a, b| a / b, |a, b| a / b);
    t.bin("add_assign", "add_assign<f32>", fa, fb, assign!(+=), |a, b| a + b);
    t.bin("add_assign", "add_assign<Quantity>", qa, qb, assign!(+=), |a, b| a + b);
    t.bin("add_assign", "add_assign<State>", sa, sb, assign!(+=), |a, b| a + b);
    t.bin("add_assign", "add_assign<Command>", ca, cb, assign!(+=), |a, b| a + b);
    t.bin("sub_assign", "sub_assign<f32>", fa, fb, assign!(-=), |a, b| a - b);
    t.bin("sub_assign", "sub_assign<Quantity>", qa, qb, assign!(-=), |a, b| a - b);
    t.bin("sub_assign", "sub_assign<State>", sa, sb, assign!(-=), |a, b| a - b);
    t.bin("sub_assign", "sub_assign<Command>", ca, cb, assign!(-=), |a, b| a - b);
    t.bin("mul_assign", "mul_assign<f32>", fa, fb, assign!(*=), |a, b| a * b);
    t.bin("mul_assign", "mul_assign<Quantity>", qa, qb, assign!(*=), |a, b| a * b);
    t.bin("div_assign", "div_assign<f32>", fa, fb, assign!(/=), |a, b| a / b);
    t.bin("div_assign", "div_assign<Quantity>", qa, qb, assign!(/=), |a, b| a / b);
    // scalar forms
    t.sca("add_scalar", "add_scalar<f32>", fa, |d| d + fb, |v| v + fb);
    t.sca("add_scalar", "add_scalar<Quantity>", qa, |d| d + qb, |v| v + qb);
    t.sca("add_scalar", "add_scalar<State>", sa, |d| d + sb, |v| v + sb);
    t.sca("add_scalar", "add_scalar<Command>", ca, |d| d + cb, |v| v + cb);
    t.sca("sub_scalar", "sub_scalar<f32>", fa, |d| d - fb, |v| v - fb);
    t.sca("sub_scalar", "sub_scalar<Quantity>", qa, |d| d - qb, |v| v - qb);
    t.sca("sub_scalar", "sub_scalar<State>", sa, |d| d - sb, |v| v - sb);
    t.sca("sub_scalar", "sub_scalar<Command>", ca, |d| d - cb, |v| v - cb);
    t.sca("mul_scalar", "mul_scalar<f32>", fa, |d| d * fb, |v| v * fb);
    t.sca("mul_scalar", "mul_scalar<Quantity>", qa, |d| d * qb, |v| v * qb);
    t.sca("div_scalar", "div_scalar<f32>", fa, |d| d / fb, |v| v / fb);
    t.sca("div_scalar", "div_scalar<Quantity>", qa, |d| d / qb, |v| v / qb);
    macro_rules! sassign {
        ($op:tt, $b:expr) => {
            |mut d| {
                d $op $b;
                d
            }
        };
    }
    t.sca("add_assign_scalar", "add_assign_scalar<f32>", fa, sassign!(+=, fb), |v| v + fb);
    t.sca("add_assign_scalar", "add_assign_scalar<Quantity>", qa, sassign!(+=, qb), |v| v + qb);
    t.sca("add_assign_scalar", "add_assign_scalar<State>", sa, sassign!(+=, sb), |v| v + sb);
    t.sca("add_assign_scalar", "add_assign_scalar<Command>", ca, sassign!(+=, cb), |v| v + cb);
    t.sca("sub_assign_scalar", "sub_assign_scalar<f32>", fa, sassign!(-=, fb), |v| v - fb);
    t.sca("sub_assign_scalar", "sub_assign_scalar<Quantity>", qa, sassign!(-=, qb), |v| v - qb);
    t.sca("sub_assign_scalar", "sub_assign_scalar<State>", sa, sassign!(-=, sb), |v| v - sb);
    t.sca("sub_assign_scalar", "sub_assign_scalar<Command>", ca, sassign!(-=, cb), |v| v - cb);
    t.sca("mul_assign_scalar", "mul_assign_scalar<f32>", fa, sassign!(*=, fb), |v| v * fb);
    t.sca("mul_assign_scalar", "mul_assign_scalar<Quantity>", qa, sassign!(*=, qb), |v| v * qb);
    t.sca("div_assign_scalar", "div_assign_scalar<f32>", fa, sassign!(/=, fb), |v| v / fb);
    t.sca("div_assign_scalar", "div_assign_scalar<Quantity>", qa, sassign!(/=, qb), |v| v / qb);
    // dedicated State / Command impls
    t.bin("state_mul_datum", "state*datum<f32>", sa, fb, |a, b| a * b, |a, b| a * b);
    t.bin("state_mul_assign_datum", "state*=datum<f32>", sa, fb, assign!(*=), |a, b| a * b);
    t.sca("state_mul_f32", "state*f32", sa, |d| d * fb, |v| v * fb);
    t.sca("state_mul_assign_f32", "state*=f32", sa, sassign!(*=, fb), |v| v * fb);
    t.bin("state_div_datum", "state/datum<f32>", sa, fb, |a, b| a / b, |a, b| a / b);
    t.bin("state_div_assign_datum", "state/=datum<f32>", sa, fb, assign!(/=), |a, b| a / b);
    t.sca("state_div_f32", "state/f32", sa, |d| d / fb, |v| v / fb);
    t.sca("state_div_assign_f32", "state/=f32", sa, sassign!(/=, fb), |v| v / fb);
    t.bin("command_mul_datum", "command*datum<f32>", ca, fb, |a, b| a * b, |a, b| a * b);
    t.bin("command_mul_assign_datum", "command*=datum<f32>", ca, fb, assign!(*=), |a, b| a * b);
    t.sca("command_mul_f32", "command*f32", ca, |d| d * fb, |v| v * fb);
    t.sca("command_mul_assign_f32", "command*=f32", ca, sassign!(*=, fb), |v| v * fb);
    t.bin("command_div_datum", "command/datum<f32>", ca, fb, |a, b| a / b, |a, b| a / b);
    t.bin("command_div_assign_datum", "command/=datum<f32>", ca, fb, assign!(/=), |a, b| a / b);
    t.sca("command_div_f32", "command/f32", ca, |d| d / fb, |v| v / fb);
    t.sca("command_div_assign_f32", "command/=f32", ca, sassign!(/=, fb), |v| v / fb);
    let covered = t.impls.len();
    // cross-check the table against the source: every `impl ... for Datum<...>` block is covered
    let src = std::fs::read_to_string("/repo/src/datum.rs").expect("cannot read /repo/src/datum.rs");
    let in_source = src.lines().filter(|l| l.starts_with("impl") && l.contains(" for Datum<")).count();
    eng.count("datum_operator_impls_in_source", in_source as i128);
    eng.count("datum_operator_impls_in_table", covered as i128);
    if in_source > covered {
        // operator impls the table does not know: the check would silently not cover them
        panic!(
            "harness table covers {} Datum operator impls but src/datum.rs has {}: the C03 table must be extended",
            covered, in_source
        );
    }
    if in_source < covered {
        // e.g. the impls are generated by macros: every instantiation of the table compiled against the
        // crate, so all of them exist; whether there are *more* cannot be told from the text
        eng.caps.push(format!("src/datum.rs spells out only {} of the {} operator impls of the table (macro-generated?): completeness of the table could not be cross-checked against the source text", in_source, covered));
    }
    eng.sample(|| "add_assign<Quantity>: Datum(t=i64::MIN+1, 6.5 mm) += Datum(t=-2, -2 mm) -> time -2".to_string());
}

fn helpers(eng: &mut Eng) {
    for &t1 in &TS {
        for &t2 in &TS {
            eng.executions += 1;
            eng.states += 1;
            eng.transitions += 5;
            eng.checks += 5;
            if t1 != t2 {
                eng.nontrivial += 1;
            }
            let case = || format!("slot time {} candidate time {}", t1, t2);
            // replace_if_older_than
            let mut d = Datum::new(Time(t1), 1.0f32);
            let c = Datum::new(Time(t2), 2.0f32);
            let r = d.replace_if_older_than(c);
            let should = t2 > t1;
            if r != should || d != if should { c } else { Datum::new(Time(t1), 1.0f32) } {
                eng.violation("datum:replace_if_older_than", 2, || format!("{}: returned {} slot now {:?}", case(), r, d));
            }
            // replace_if_none_or_older_than
            let mut o = Some(Datum::new(Time(t1), 1.0f32));
            let r = o.replace_if_none_or_older_than(c);
            if r != should || o != Some(if should { c } else { Datum::new(Time(t1), 1.0f32) }) {
                eng.violation("datum:replace_if_none_or_older_than", 2, || format!("{}: returned {} slot now {:?}", case(), r, o));
            }
            let mut o = Some(Datum::new(Time(t1), 1.0f32));
            let r = o.replace_if_none_or_older_than_option(Some(c));
            if r != should || o != Some(if should { c } else { Datum::new(Time(t1), 1.0f32) }) {
                eng.violation("datum:replace_if_none_or_older_than_option", 2, || format!("{}: returned {} slot now {:?}", case(), r, o));
            }
            // latest
            let a = Datum::new(Time(t1), 1.0f32);
            let l = latest(a, c);
            if !((l == a || l == c) && l.time.0 >= t1 && l.time.0 >= t2) {
                eng.violation("datum:latest", 2, || format!("{}: latest returned {:?}", case(), l));
            }
            let l = latest(c, a);
            if !((l == a || l == c) && l.time.0 >= t1 && l.time.0 >= t2) {
                eng.violation("datum:latest", 2, || format!("{} (swapped): latest returned {:?}", case(), l));
            }
            eng.outcome(h64(&(t1 > t2, t1 == t2, l.time.0)));
        }
        // empty slot / empty candidate
        let c = Datum::new(Time(t1), 2.0f32);
        let mut o: Option<Datum<f32>> = None;
        let r = o.replace_if_none_or_older_than(c);
        if !r || o != Some(c) {
            eng.violation("datum:replace_if_none_or_older_than:empty-slot", 1, || format!("candidate time {}", t1));
        }
        let mut o: Option<Datum<f32>> = None;
        let r = o.replace_if_none_or_older_than_option(Some(c));
        if !r || o != Some(c) {
            eng.violation("datum:replace_if_none_or_older_than_option:empty-slot", 1, || format!("candidate time {}", t1));
        }
        let mut o = Some(c);
        let r = o.replace_if_none_or_older_than_option(None);
        if r || o != Some(c) {
            eng.violation("datum:replace_if_none_or_older_than_option:empty-candidate", 1, || format!("slot time {}", t1));
        }
        let mut o: Option<Datum<f32>> = None;
        let r = o.replace_if_none_or_older_than_option(None);
        if r || o.is_some() {
            eng.violation("datum:replace_if_none_or_older_than_option:both-empty", 1, || String::new());
        }
        eng.executions += 4;
        eng.checks += 4;
    }
    eng.sample(|| "replace_if_older_than: slot time i64::MAX-1, candidate time i64::MAX -> replaced, returns true".to_string());
}

pub fn run(ctx: &Ctx) -> Vec<Eng> {
    let mut e1 = Eng::new(
        "c03-datum-operators",
        "every Datum operator impl of src/datum.rs (table cross-checked against the source; a missing impl is a machinery error) instantiated for every payload type it admits x all 529 ordered pairs of the timestamp alphabet {MIN, MIN+1, +-2^32, +-3e9, +-2^31, 2^31-1, -2^31-1, +-(1.5e9+7), +-1.5e9, -2..2, 2^53, 2^53+1, MAX-1, MAX} (adjacent values at magnitudes where f32 / f64 arithmetic cannot tell them apart; values whose 32-bit words straddle sign and carry boundaries); result time = newer operand (scalar forms: unchanged), payload = raw operator; non-trivial = the two timestamps differ",
        "34 impl blocks, 85 instantiations x 529 pairs (scalar forms x 23)",
    );
    datum_ops(&mut e1);
    let mut e2 = Eng::new(
        "c03-selection-helpers",
        "replace_if_older_than, replace_if_none_or_older_than(_option), latest() (both argument orders) on all 529 timestamp pairs plus empty slot / empty candidate; non-trivial = timestamps differ",
        "529 pairs + 23 x 4 empty cases",
    );
    helpers(&mut e2);
    let (mw, mn) = if ctx.thorough { (6, 7) } else { (5, 5) };
    let mut e3 = Eng::new(
        "c03-stream-timestamps",
        "the C02 combinator enumeration (all category assignments x all weak timestamp orders) with only the timestamp oracle evaluated: arithmetic/logic streams stamp with the newest contributing input, newest-of returns a candidate no other candidate is strictly newer than",
        &format!("arities 1..={}, fixed-arity combinators x 7 timestamp relations", mn),
    );
    crate::c02::run_nary(&mut e3, mw, mn, true);
    crate::c02::run_fixed(&mut e3, true);
    let mut e4 = Eng::new(
        "c03-terminal-timestamps",
        "terminal state averaging / command selection / combined read over all presence combinations x weak timestamp orders (engine shared with C09)",
        "see c09-read-values",
    );
    crate::c09::values(&mut e4);
    let mut v = vec![e1, e2, e3, e4];
    v.extend(crate::c08::run_time_mode(ctx));
    v
}
