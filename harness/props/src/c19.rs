//! C19 — feature configuration changes only whether units are checked, never the numbers.
//! This engine is compiled into each of the six configurations; it writes canonical traces of
//! well-dimensioned workloads (one file per section) which driver/c19_cfg.py compares across
//! builds, and - in the unchecked builds - runs the ill-dimensioned section.
use crate::env::*;
use crate::mc::*;
use crate::Ctx;
use rrtk::*;
use std::fmt::Write as _;

/// f32 compared "as values": -0 and +0 are one value, all NaNs are one value.
pub fn canon(v: f32) -> u32 {
    if v.is_nan() {
        0x7fc0_0000
    } else if v == 0.0 {
        0
    } else {
        v.to_bits()
    }
}
fn obs_words(o: &Obs, payload_floats: usize) -> String {
    let mut s = format!("{}@{}", o.tag, if o.tag == 1 { o.time } else { 0 });
    for i in 0..4 {
        if i < payload_floats {
            let _ = write!(s, " f:{:08x}", canon(o.f(i)));
        } else if i < 3 {
            let _ = write!(s, " {}", o.bits[i]);
        }
    }
    s
}

struct Section {
    name: String,
    lines: Vec<String>,
}
impl Section {
    fn new(name: &str) -> Section {
        Section { name: name.to_string(), lines: Vec::new() }
    }
    fn case<F: FnOnce() -> String>(&mut self, label: String, f: F) {
        let r = guard(f);
        self.lines.push(format!("{} => {}", label, r.unwrap_or_else(|m| format!("PANIC {}", m.replace('\n', " ")))));
    }
}

fn sections() -> Vec<Section> {
    let mut out = Vec::new();
    // ---- quantities: matching units for +,-,cmp; all grid pairs for *,/
    let mut s = Section::new("quantity-arithmetic");
    let vals = [0.0f32, -0.0, 1.0, -1.5, 0.1, 7e6, -2.5e-7, 3.0];
    for m in -3..=3i8 {
        for sx in -3..=3i8 {
            let u = Unit::new(m, sx);
            for &x in &vals {
                for &y in &vals {
                    s.case(format!("({},{}) {:?} {:?}", m, sx, x, y), || {
                        let (a, b) = (Quantity::new(x, u), Quantity::new(y, u));
                        let mut c = a;
                        c += b;
                        let mut d = a;
                        d -= b;
                        let w = Unit::new(sx, m);
                        let (p, q) = (a * Quantity::new(y, w), a / Quantity::new(y, w));
                        format!("f:{:08x} f:{:08x} f:{:08x} f:{:08x} f:{:08x} f:{:08x} f:{:08x} f:{:08x} {:?} {}", canon((a + b).value), canon((a - b).value), canon(c.value), canon(d.value), canon(p.value), canon(q.value), canon((-a).value), canon(a.abs().value), a.partial_cmp(&b), a == b)
                    });
                }
            }
        }
    }
    out.push(s);
    // ---- time / integer conversions and mixed operators
    let mut s = Section::new("time-conversions");
    // (the tail repeats values that agree in their low 32 / 16 bits back to back: a conversion is a
    // pure function of its argument in every configuration)
    for &t in &[0i64, 1, -1, 999, 1_000_000_000, -2_500_000_000, 16_777_217, 30_000_001_024, (1 << 53) + 1, -(1 << 62), i64::MAX, i64::MIN, 1_500_000_000, 1_500_000_000 + (1 << 32), 1_500_000_000, 1_500_000_000 - (1 << 32), 7_000_000, 7_000_000 + (1 << 16), 7_000_000, 7_000_000 + (3 << 32)] {
        s.case(format!("t={}", t), || {
            let q = Quantity::from(Time(t));
            let back = Time::try_from(q).map(|x| x.0);
            let dq = Quantity::from(DimensionlessInteger(t));
            let mm = Quantity::new(2.5, MILLIMETER_PER_SECOND) * Time(t);
            let dd = Quantity::new(2.5, MILLIMETER) / Time(t);
            let ss = Quantity::new(2.5, SECOND) + Time(t);
            format!("f:{:08x} {:?} f:{:08x} f:{:08x} f:{:08x} f:{:08x}", canon(q.value), back, canon(dq.value), canon(mm.value), canon(dd.value), canon(ss.value))
        });
    }
    for &v in &[0.0f32, 1.5, -2.25, 1e-9, 9e9, -9e9, 0.1, 123456.79] {
        s.case(format!("v={:?}", v), || format!("{:?} {:?}", Time::try_from(Quantity::new(v, SECOND)).map(|x| x.0), DimensionlessInteger::try_from(Quantity::new(v, DIMENSIONLESS)).map(|x| x.0)));
    }
    out.push(s);
    // ---- state / command
    let mut s = Section::new("state-command");
    let comp = [0.0f32, -0.0, 1.0, -2.0, 0.5, 1024.0, 0.1, -7.3];
    for &p in &comp {
        for &v in &comp {
            for &a in &comp {
                for &dt in &[-100_000 * S, -S / 2, 0, 1, S / 2, 2 * S, 100_000 * S] {
                    s.case(format!("({:?},{:?},{:?}) dt={}", p, v, a, dt), || {
                        let mut st = State::new_raw(p, v, a);
                        st.update(Time(dt));
                        let c = Command::from(State::new_raw(p, v, a));
                        let mut s2 = State::new_raw(p, v, a);
                        let r1 = s2.set_constant_velocity(Quantity::new(v, MILLIMETER_PER_SECOND));
                        let mut s3 = State::new_raw(p, v, a);
                        let r2 = s3.set_constant_position(Quantity::new(a, MILLIMETER));
                        let mut s4 = State::new_raw(p, v, a);
                        let r3 = s4.set_constant_acceleration(Quantity::new(p, MILLIMETER_PER_SECOND_SQUARED));
                        let st5 = State::new(Quantity::new(p, MILLIMETER), Quantity::new(v, MILLIMETER_PER_SECOND), Quantity::new(a, MILLIMETER_PER_SECOND_SQUARED));
                        format!(
                            "f:{:08x} f:{:08x} f:{:08x} {} f:{:08x} {:?} f:{:08x} f:{:08x} {:?} f:{:08x} {:?} f:{:08x} f:{:08x}",
                            canon(st.position), canon(st.velocity), canon(st.acceleration),
                            match c { Command::Position(_) => 1, Command::Velocity(_) => 2, Command::Acceleration(_) => 3 },
                            canon(f32::from(c)), r1, canon(s2.velocity), canon(s2.acceleration), r2, canon(s3.position), r3, canon(s4.acceleration), canon(st5.velocity)
                        )
                    });
                }
            }
        }
    }
    out.push(s);
    // ---- PID controller
    let mut s = Section::new("pid");
    // "degenerate": legal programs outside the comfortable range - repeated and backward timestamps
    let degen04 = { use crate::c04::Ev::*; vec![P(0, 1.0), P(0, -2.0), P(S, 3.0), P(-S / 2, 1.0), N(0), Er(0, 1)] };
    for (name, syms, depth) in [("exact", crate::c04::exact_syms(), 3usize), ("broad", crate::c04::broad_syms(), 3), ("degenerate", degen04, 4)] {
        let n = ipow(syms.len() as u64, depth);
        let mut idx = vec![0usize; depth];
        for gi in 0..4 {
            for code in 0..n {
                decode(code, syms.len() as u64, &mut idx);
                let h: Vec<crate::c04::Ev> = idx.iter().map(|&i| syms[i]).collect();
                s.case(format!("{} g{} {}", name, gi, code), || crate::c04::run_real(crate::c04::GAINS[gi], &h, 10 * S, 1.0).iter().map(|(u, o)| format!("{}:{}", u, obs_words(o, 1))).collect::<Vec<_>>().join(" | "));
            }
        }
    }
    out.push(s);
    // ---- stateful streams (all 15 kinds); the EWMA kinds go to a powf section
    let mut s = Section::new("stateful-streams");
    let mut sp = Section::new("powf:ewma-stateful");
    {
        let depth = 4;
        let n = ipow(5, depth);
        let mut idx = vec![0usize; depth];
        // regular clock, then a clock that repeats a timestamp and steps backwards
        for (tname, times) in [("", (0..depth).map(|k| (k as i64 + 1) * S).collect::<Vec<i64>>()), ("degenerate-times ", vec![S, S, S / 2, S / 2])] {
            for kind in 0..15 {
                for code in 0..n {
                    decode(code, 5, &mut idx);
                    let h: Vec<crate::c05::Ev> = idx.iter().map(|&i| crate::c05::SYMS[i]).collect();
                    let target = if kind == 4 || kind == 5 { &mut sp } else { &mut s };
                    target.case(format!("{}{} {}", tname, crate::c05::KIND_NAMES[kind], code), || {
                        let mut imp = false;
                        crate::c05::run_full(kind, &h, &times, &mut imp).iter().map(|(u, o)| format!("{}:{}", u, obs_words(o, 3))).collect::<Vec<_>>().join(" | ")
                    });
                }
            }
        }
    }
    out.push(s);
    out.push(sp);
    // ---- integral / derivative / to-state
    let mut s = Section::new("calculus-streams");
    let degen10 = { use crate::c10::Ev::*; vec![P(0, 1.0), P(0, -2.0), P(S, 3.0), P(-S / 2, 1.0), N(0), Er(0, 1)] };
    for (name, syms, depth) in [("exact", crate::c10::exact_syms(), 3usize), ("broad", crate::c10::broad_syms(), 3), ("degenerate", degen10, 4)] {
        let n = ipow(syms.len() as u64, depth);
        let mut idx = vec![0usize; depth];
        for kind in 0..5 {
            for code in 0..n {
                decode(code, syms.len() as u64, &mut idx);
                let h: Vec<crate::c10::Ev> = idx.iter().map(|&i| syms[i]).collect();
                s.case(format!("{} {} {}", name, crate::c10::KINDS[kind], code), || crate::c10::run_real(kind, &h, -3 * S, crate::c10::natural_unit(kind)).iter().map(|(u, o)| format!("{}:{}", u, obs_words(o, 3))).collect::<Vec<_>>().join(" | "));
            }
        }
    }
    out.push(s);
    // ---- command PID
    let mut s = Section::new("command-pid");
    {
        let degen11 = { use crate::c11::Ev::*; vec![P(0, 0), P(0, 1), P(S / 2, 1), P(-S / 2, 0), N(0), Er(0), Set(0), Set(2)] };
        for (name, syms, depth) in [("regular", crate::c11::syms(false), 3usize), ("degenerate", degen11, 4)] {
            let n = ipow(syms.len() as u64, depth);
            let mut idx = vec![0usize; depth];
            for init in [crate::c11::TARGETS[0], crate::c11::TARGETS[2], crate::c11::TARGETS[4]] {
                for code in 0..n {
                    decode(code, syms.len() as u64, &mut idx);
                    let h: Vec<crate::c11::Ev> = idx.iter().map(|&i| syms[i]).collect();
                    s.case(format!("{} {:?} {}", name, init, code), || crate::c11::run_real(init, false, &h, 5 * S).iter().map(|(u, o)| format!("{}:{}", u, obs_words(o, 1))).collect::<Vec<_>>().join(" | "));
                }
            }
        }
    }
    out.push(s);
    // ---- filters
    let mut s = Section::new("moving-average");
    let mut sp = Section::new("powf:ewma");
    {
        let syms = crate::c12::syms();
        let depth = 3;
        let n = ipow(syms.len() as u64, depth);
        let mut idx = vec![0usize; depth];
        for cfg in crate::c12::cfgs() {
            let target = if matches!(cfg, crate::c12::Cfg::Ewma(_)) { &mut sp } else { &mut s };
            for code in 0..n {
                decode(code, syms.len() as u64, &mut idx);
                let h: Vec<crate::c12::Ev> = idx.iter().map(|&i| syms[i]).collect();
                target.case(format!("{:?} {}", cfg, code), || crate::c12::run_real(cfg, &h, 7 * S).iter().map(|(u, o, u2, o2)| format!("{}:{} {}:{}", u, obs_words(o, 1), u2, obs_words(o2, 1))).collect::<Vec<_>>().join(" | "));
            }
        }
    }
    out.push(s);
    out.push(sp);
    // ---- exponent stream
    let mut sp = Section::new("powf:exponent");
    for &b in &[0.0f32, 1.0, 2.0, 0.5, 10.0, 0.1] {
        for &x in &[0.0f32, 1.0, -1.0, 2.0, 0.5, -2.5, 3.0] {
            sp.case(format!("{:?}^{:?}", b, x), || {
                let g1 = rc(Scr::<f32>::new(Ok(Some(Datum::new(Time(1), b)))));
                let g2 = rc(Scr::<f32>::new(Ok(Some(Datum::new(Time(2), x)))));
                let e = rrtk::streams::math::ExponentStream::new(rf(&g1), rf(&g2));
                obs_words(&obs(&e.get()), 1)
            });
        }
    }
    out.push(sp);
    // ---- motion profiles
    let mut s = Section::new("motion-profiles");
    for (i, spec) in crate::c06::specs(false).iter().enumerate() {
        if i % 7 != 0 {
            continue;
        }
        s.case(format!("{:?}", spec), || {
            let mp = match guard(|| crate::c06::spec_build(spec)) {
                Ok(mp) => mp,
                Err(_) => return "REJECTED-BY-CONSTRUCTOR".to_string(),
            };
            let ts = crate::c06::debug_times(&mp).unwrap_or([0, 0, 0]);
            let mut w = format!("{:?}", ts);
            for t in crate::c06::query_times(ts) {
                let _ = write!(w, " {:?}", crate::c06::sample(&mp, t).words());
            }
            w
        });
    }
    out.push(s);
    // ---- devices
    let mut s = Section::new("devices");
    {
        use crate::c08::{run_rounds, Kind, Mode, NOPT};
        let kinds = [Kind::Invert, Kind::Gear(-2.0), Kind::Gear(100.0), Kind::GearQ(0.5), Kind::Axle(2), Kind::Axle(3), Kind::Diff(0), Kind::Diff(2), Kind::Diff(3)];
        for kind in kinds {
            let n = kind.n();
            let per_round = ipow(NOPT as u64, n);
            let depth = if n == 2 { 2 } else { 1 };
            let total = ipow(per_round, depth);
            let mut codes = vec![0usize; depth];
            for mask in [0u32, (1 << n) - 1] {
                for mode in [Mode::State, Mode::Command] {
                    for c in 0..total {
                        decode(c, per_round, &mut codes);
                        let rounds: Vec<Vec<usize>> = codes.iter().map(|&x| { let mut o = vec![0usize; n]; decode(x as u64, NOPT as u64, &mut o); o }).collect();
                        s.case(format!("{:?} {} {:?} {}", kind, mask, mode, c), || format!("{:x}", h64(&run_rounds(kind, mask, &rounds, mode).iter().map(|r| r.canon_words()).collect::<Vec<_>>())));
                    }
                }
            }
        }
    }
    out.push(s);
    out
}

/// Unchecked builds: no unit mismatch ever panics or is rejected; values are plain f32 arithmetic.
#[cfg(not(feature = "dimcheck"))]
fn ill_dimensioned(e: &mut Eng) {
    use rrtk::streams::converters::*;
    for m1 in -3..=3i8 {
        for s1 in -3..=3i8 {
            for m2 in -3..=3i8 {
                for s2 in -3..=3i8 {
                    e.executions += 1;
                    e.states += 1;
                    e.transitions += 7;
                    e.checks += 1;
                    if (m1, s1) != (m2, s2) {
                        e.nontrivial += 1;
                    }
                    let (a, b) = (Quantity::new(1.5, Unit::new(m1, s1)), Quantity::new(-0.25, Unit::new(m2, s2)));
                    let r = guard(|| {
                        let mut c = a;
                        c += b;
                        let mut d = a;
                        d -= b;
                        let _ = Unit::new(m1, s1) + Unit::new(m2, s2);
                        ((a + b).value, (a - b).value, c.value, d.value, a.partial_cmp(&b), a < b, a > b)
                    });
                    match r {
                        Ok((x, y, z, w, o, lt, gt)) => {
                            if x != 1.25 || y != 1.75 || z != 1.25 || w != 1.75 || o != Some(core::cmp::Ordering::Greater) || lt || !gt {
                                e.violation("unchecked:quantity-op-value", 1, || format!("units ({},{}) and ({},{}): results {:?}", m1, s1, m2, s2, (x, y, z, w, o, lt, gt)));
                            }
                        }
                        Err(msg) => e.violation("unchecked:quantity-op-panicked", 1, || format!("units ({},{}) and ({},{}): {}", m1, s1, m2, s2, msg)),
                    }
                }
            }
            // setters, constructors, conversions with an arbitrary unit
            let u = Unit::new(m1, s1);
            let q = Quantity::new(4.5, u);
            e.executions += 1;
            e.checks += 1;
            let r = guard(|| {
                let mut st = State::new_raw(1.0, 2.0, 3.0);
                let r1 = st.set_constant_acceleration(q);
                let a = st;
                let r2 = st.set_constant_velocity(q);
                let b = st;
                let r3 = st.set_constant_position(q);
                let c = st;
                let n = State::new(q, q, q);
                let t = Time::try_from(q).map(|x| x.0);
                let d = DimensionlessInteger::try_from(q).map(|x| x.0);
                let g = rrtk::devices::GearTrain::<E>::with_ratio(q);
                let _ = g;
                (r1, a, r2, b, r3, c, n, t, d)
            });
            match r {
                Ok((r1, a, r2, b, r3, c, n, t, d)) => {
                    let ok = r1.is_ok() && a == State::new_raw(1.0, 2.0, 4.5) && r2.is_ok() && b == State::new_raw(1.0, 4.5, 0.0) && r3.is_ok() && c == State::new_raw(4.5, 0.0, 0.0) && n == State::new_raw(4.5, 4.5, 4.5) && t == Ok((4.5f32 * 1_000_000_000.0f32) as i64) && d == Ok(4);
                    if !ok {
                        e.violation("unchecked:rejected-or-wrong", 1, || format!("unit ({},{}): setters {:?} {:?} {:?} states {:?} {:?} {:?} new {:?} time {:?} int {:?}", m1, s1, r1, r2, r3, a, b, c, n, t, d));
                    }
                }
                Err(msg) => e.violation("unchecked:panicked", 1, || format!("unit ({},{}): {}", m1, s1, msg)),
            }
            // to-state converters accept any unit
            for kind in 2..5 {
                e.executions += 1;
                let h = [crate::c10::Ev::P(S, 1.0), crate::c10::Ev::P(S, 3.0), crate::c10::Ev::P(2 * S, -2.0)];
                let r = guard(|| crate::c10::run_real(kind, &h, 0, u));
                let refr = guard(|| crate::c10::run_real(kind, &h, 0, crate::c10::natural_unit(kind)));
                if r.is_err() || r != refr {
                    e.violation("unchecked:to-state-converter", 1, || format!("{} with unit ({},{}): {:?}", crate::c10::KINDS[kind], m1, s1, r.as_ref().err()));
                }
            }
        }
    }
    e.sample(|| "Quantity(1.5 mm^2/s) + Quantity(-0.25 s^3) = 1.25, no panic; set_constant_velocity(4.5 s^-2) -> Ok".to_string());
}

pub fn run(_ctx: &Ctx) -> Vec<Eng> {
    let cfgname = format!(
        "{}{}{}",
        if cfg!(feature = "std") { "std" } else if cfg!(feature = "libm") { "libm" } else { "micromath" },
        if cfg!(debug_assertions) { "" } else { "-rel" },
        if cfg!(feature = "dimcheck") { "" } else { "-nocheck" }
    );
    let mut e = Eng::new(
        &format!("c19-trace[{}]", cfgname),
        "canonical traces (outcome categories, f32 values with -0 == +0 and all NaNs equal, i64 times) of well-dimensioned workloads: quantity arithmetic on the 49 grid units x 8x8 values, Time/integer conversions, State update/setters/Command conversions (8^3 states x 7 intervals), PIDControllerStream (all 12^3 and 14^3 histories x 4 gain sets), 15 stateful streams (all 5^4 histories), integral/derivative/to-state (18^3, 14^3), CommandPID (12^3 x 3), moving average and EWMA (14^3 x 8), exponent stream, motion profiles (every 7th grid profile x ~25 instants), devices (state and command rounds); one trace file per section, compared across the eight builds by the driver; non-trivial = every case (each exercises real arithmetic)",
        "see rule",
    );
    let dir = std::env::var("VERIF_C19_DIR").unwrap_or_else(|_| "/tmp".to_string());
    for s in sections() {
        let text = s.lines.join("\n");
        let path = format!("{}/{}.{}.trace", dir, cfgname, s.name.replace(':', "_"));
        std::fs::write(&path, &text).expect("cannot write trace file");
        e.executions += s.lines.len() as u64;
        e.states += s.lines.len() as u64;
        e.transitions += s.lines.len() as u64;
        e.nontrivial += s.lines.len() as u64;
        e.outcome(h64(&text));
        e.count(&format!("cases:{}", s.name), s.lines.len() as i128);
        let panics = s.lines.iter().filter(|l| l.contains("=> PANIC")).count();
        if panics > 0 {
            let first = s.lines.iter().find(|l| l.contains("=> PANIC")).unwrap().clone();
            e.violation(&format!("config[{}]:{}:panic-in-well-dimensioned-workload", cfgname, s.name), 1, || format!("{} case(s) panicked, first: {}", panics, first));
        }
        e.sample(|| format!("{}: {}", s.name, s.lines.get(s.lines.len() / 2).cloned().unwrap_or_default().chars().take(160).collect::<String>()));
    }
    let mut v = vec![e];
    #[cfg(not(feature = "dimcheck"))]
    {
        let mut e2 = Eng::new(
            &format!("c19-unchecked[{}]", cfgname),
            "dimension checking compiled out: all 49x49 unit pairs through + - += -= partial_cmp < > and Unit+Unit (never a panic, values = plain f32 arithmetic); for all 49 units: the three State setters, State::new, Time/DimensionlessInteger try_from, GearTrain::with_ratio, the three to-state converters (never a rejection, never a panic, same numbers as with the right unit); non-trivial = the units differ",
            "2401 pairs + 49 x 5",
        );
        ill_dimensioned(&mut e2);
        v.push(e2);
    }
    v
}
