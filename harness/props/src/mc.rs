//! Explorer library: bounded-exhaustive enumeration of event sequences, deviation-bounded
//! histories, weak orders, explicit-state BFS bookkeeping, parallel drivers, panic guard and
//! the evidence counters every engine reports.
use crate::js::J;
use std::collections::hash_map::DefaultHasher;
use std::collections::{BTreeMap, HashSet};
use std::hash::{Hash, Hasher};
use std::panic::{catch_unwind, AssertUnwindSafe};
use std::sync::atomic::{AtomicBool, AtomicU64, Ordering};
use std::time::{Duration, Instant};

pub const OUTCOME_CAP: usize = 1 << 21;

pub fn h64<T: Hash + ?Sized>(t: &T) -> u64 {
    let mut h = DefaultHasher::new();
    t.hash(&mut h);
    h.finish()
}

/// One violation class (stable key) with its smallest witness.
#[derive(Clone, Debug)]
pub struct Viol {
    pub key: String,
    pub count: u64,
    pub size: usize,
    pub detail: String,
}

/// Counters + violations of one engine run. Workers own a fork and are merged at the end.
pub struct Eng {
    pub name: String,
    pub rule: String,
    pub bounds: String,
    pub states: u64,
    pub transitions: u64,
    pub executions: u64,
    pub nontrivial: u64,
    pub max_depth: u64,
    pub checks: u64,
    pub outcomes: HashSet<u64>,
    pub outcomes_capped: bool,
    pub caps: Vec<String>,
    pub samples: Vec<String>,
    pub viol: BTreeMap<String, Viol>,
    pub extra: BTreeMap<String, i128>,
    /// counters merged by maximum
    pub maxes: BTreeMap<String, i128>,
    pub notes: Vec<String>,
}

impl Eng {
    pub fn new(name: &str, rule: &str, bounds: &str) -> Eng {
        Eng {
            name: name.to_string(),
            rule: rule.to_string(),
            bounds: bounds.to_string(),
            states: 0,
            transitions: 0,
            executions: 0,
            nontrivial: 0,
            max_depth: 0,
            checks: 0,
            outcomes: HashSet::new(),
            outcomes_capped: false,
            caps: Vec::new(),
            samples: Vec::new(),
            viol: BTreeMap::new(),
            extra: BTreeMap::new(),
            maxes: BTreeMap::new(),
            notes: Vec::new(),
        }
    }
    pub fn fork(&self) -> Eng {
        Eng::new(&self.name, "", "")
    }
    pub fn merge(&mut self, o: Eng) {
        self.states += o.states;
        self.transitions += o.transitions;
        self.executions += o.executions;
        self.nontrivial += o.nontrivial;
        self.checks += o.checks;
        self.max_depth = self.max_depth.max(o.max_depth);
        for h in o.outcomes {
            self.outcome(h);
        }
        self.outcomes_capped |= o.outcomes_capped;
        for c in o.caps {
            if !self.caps.contains(&c) {
                self.caps.push(c);
            }
        }
        for s in o.samples {
            if self.samples.len() < 4 && !self.samples.contains(&s) {
                self.samples.push(s);
            }
        }
        for (k, v) in o.viol {
            match self.viol.get_mut(&k) {
                None => {
                    self.viol.insert(k, v);
                }
                Some(e) => {
                    e.count += v.count;
                    if (v.size, &v.detail) < (e.size, &e.detail) {
                        e.size = v.size;
                        e.detail = v.detail;
                    }
                }
            }
        }
        for (k, v) in o.extra {
            *self.extra.entry(k).or_insert(0) += v;
        }
        for (k, v) in o.maxes {
            let e = self.maxes.entry(k).or_insert(i128::MIN);
            *e = (*e).max(v);
        }
        for n in o.notes {
            if !self.notes.contains(&n) {
                self.notes.push(n);
            }
        }
    }
    #[inline]
    pub fn outcome(&mut self, h: u64) {
        if self.outcomes.len() < OUTCOME_CAP {
            self.outcomes.insert(h);
        } else {
            self.outcomes_capped = true;
        }
    }
    pub fn count(&mut self, k: &str, n: i128) {
        *self.extra.entry(k.to_string()).or_insert(0) += n;
    }
    pub fn maxi(&mut self, k: &str, v: i128) {
        let e = self.maxes.entry(k.to_string()).or_insert(i128::MIN);
        *e = (*e).max(v);
    }
    pub fn sample<F: FnOnce() -> String>(&mut self, f: F) {
        if self.samples.len() < 3 {
            let s = f();
            if !self.samples.contains(&s) {
                self.samples.push(s);
            }
        }
    }
    /// Record a violation under a stable key; `size` orders witnesses (smaller = simpler).
    pub fn violation<F: FnOnce() -> String>(&mut self, key: &str, size: usize, detail: F) {
        match self.viol.get_mut(key) {
            None => {
                self.viol.insert(
                    key.to_string(),
                    Viol {
                        key: key.to_string(),
                        count: 1,
                        size,
                        detail: detail(),
                    },
                );
            }
            Some(e) => {
                e.count += 1;
                if size < e.size {
                    e.size = size;
                    e.detail = detail();
                }
            }
        }
    }
    pub fn to_json(&self) -> J {
        J::obj(vec![
            ("name", J::s(&self.name)),
            ("rule", J::s(&self.rule)),
            ("bounds", J::s(&self.bounds)),
            ("states", J::I(self.states as i128)),
            ("transitions", J::I(self.transitions as i128)),
            ("executions", J::I(self.executions as i128)),
            ("distinct_nontrivial", J::I(self.nontrivial as i128)),
            ("oracle_checks", J::I(self.checks as i128)),
            ("max_depth", J::I(self.max_depth as i128)),
            ("distinct_outcomes", J::I(self.outcomes.len() as i128)),
            ("distinct_outcomes_capped", J::B(self.outcomes_capped)),
            ("caps_hit", J::arr_s(&self.caps)),
            ("exhaustive", J::B(self.caps.is_empty())),
            ("samples", J::arr_s(&self.samples)),
            ("notes", J::arr_s(&self.notes)),
            (
                "extra",
                J::O(self
                    .extra
                    .iter()
                    .chain(self.maxes.iter())
                    .map(|(k, v)| (k.clone(), J::I(*v)))
                    .collect()),
            ),
            (
                "violations",
                J::A(self
                    .viol
                    .values()
                    .map(|v| {
                        J::obj(vec![
                            ("key", J::s(&v.key)),
                            ("count", J::I(v.count as i128)),
                            ("size", J::I(v.size as i128)),
                            ("detail", J::s(&v.detail)),
                        ])
                    })
                    .collect()),
            ),
        ])
    }
}

pub fn threads() -> usize {
    std::env::var("VERIF_THREADS")
        .ok()
        .and_then(|s| s.parse().ok())
        .unwrap_or(16)
        .max(1)
}

/// Deadline helper: engines are given a wall budget; when it is exceeded the remaining work
/// is skipped and a cap is recorded (so the run is never called exhaustive).
#[derive(Clone, Copy)]
pub struct Budget {
    pub end: Instant,
}
impl Budget {
    pub fn secs(s: u64) -> Budget {
        Budget {
            end: Instant::now() + Duration::from_secs(s),
        }
    }
    pub fn over(&self) -> bool {
        Instant::now() >= self.end
    }
}

/// Run `f(idx, local)` for every idx in 0..n on all cores; dynamic chunking.
pub fn par<F>(eng: &mut Eng, n: u64, chunk: u64, budget: Budget, f: F)
where
    F: Fn(u64, &mut Eng) + Sync,
{
    let next = AtomicU64::new(0);
    let done = AtomicU64::new(0);
    let stop = AtomicBool::new(false);
    let chunk = chunk.max(1);
    let nt = threads().min(((n + chunk - 1) / chunk).max(1) as usize);
    let locals: Vec<Eng> = std::thread::scope(|s| {
        let mut hs = Vec::new();
        for _ in 0..nt {
            let mut local = eng.fork();
            let next = &next;
            let done = &done;
            let stop = &stop;
            let f = &f;
            hs.push(s.spawn(move || {
                loop {
                    if stop.load(Ordering::Relaxed) {
                        break;
                    }
                    let start = next.fetch_add(chunk, Ordering::Relaxed);
                    if start >= n {
                        break;
                    }
                    let end = (start + chunk).min(n);
                    for i in start..end {
                        f(i, &mut local);
                    }
                    done.fetch_add(end - start, Ordering::Relaxed);
                    if budget.over() {
                        stop.store(true, Ordering::Relaxed);
                    }
                }
                local
            }));
        }
        hs.into_iter().map(|h| h.join().expect("worker thread panicked")).collect()
    });
    for l in locals {
        eng.merge(l);
    }
    let d = done.load(Ordering::Relaxed);
    if d < n {
        eng.caps
            .push(format!("wall budget hit in {}: {} of {} items completed", eng.name, d, n));
    }
}

pub fn ipow(base: u64, len: usize) -> u64 {
    let mut r: u64 = 1;
    for _ in 0..len {
        r = r.checked_mul(base).expect("sequence space too large");
    }
    r
}

/// Decode idx into `len` digits of `base`, most significant first.
#[inline]
pub fn decode(mut idx: u64, base: u64, out: &mut [usize]) {
    for i in (0..out.len()).rev() {
        out[i] = (idx % base) as usize;
        idx /= base;
    }
}

/// Number of tree nodes (prefixes) first visited by sequence idx in lexicographic order.
#[inline]
pub fn new_nodes(idx: u64, base: u64, len: usize) -> u64 {
    if idx == 0 {
        return len as u64;
    }
    let mut n = 1;
    let mut i = idx;
    while i % base == 0 && n < len as u64 {
        n += 1;
        i /= base;
    }
    n
}

/// All sequences of exactly `len` symbols over an alphabet of `base` symbols (every shorter
/// sequence is a prefix of one of them and is checked step by step by the callback).
/// The callback returns the number of events it applied to the real implementation.
pub fn par_seqs<F>(eng: &mut Eng, base: usize, len: usize, budget: Budget, f: F)
where
    F: Fn(&[usize], &mut Eng) -> u64 + Sync,
{
    let n = ipow(base as u64, len);
    let chunk = (n / (threads() as u64 * 64)).clamp(1, 4096);
    par(eng, n, chunk, budget, |idx, e| {
        let mut buf = [0usize; 32];
        let seq = &mut buf[..len];
        decode(idx, base as u64, seq);
        e.states += new_nodes(idx, base as u64, len);
        e.executions += 1;
        e.max_depth = e.max_depth.max(len as u64);
        e.transitions += f(seq, e);
    });
}

/// All ways to deviate from a default stream of `h` events in at most `k` positions, each
/// deviation choosing one of `m` alternatives: list of (position, alternative) vectors,
/// ordered by number of deviations (0 first).
pub fn deviation_cases(h: usize, m: usize, k: usize) -> Vec<Vec<(u16, u16)>> {
    // the list is materialised: refuse sizes that would exhaust memory (a harness bug, not a verdict)
    let mut total: f64 = 1.0;
    let mut term: f64 = 1.0;
    for j in 1..=k {
        term = term * ((h + 1 - j) as f64) / (j as f64) * (m as f64);
        total += term;
    }
    assert!(total < 3.0e7, "deviation space H={} m={} k={} has {} cases: too large to materialise", h, m, k, total);
    let mut out: Vec<Vec<(u16, u16)>> = vec![vec![]];
    let mut frontier: Vec<Vec<(u16, u16)>> = vec![vec![]];
    for _ in 0..k {
        let mut next = Vec::new();
        for c in &frontier {
            let start = c.last().map(|x| x.0 as usize + 1).unwrap_or(0);
            for p in start..h {
                for a in 0..m {
                    let mut n = c.clone();
                    n.push((p as u16, a as u16));
                    next.push(n);
                }
            }
        }
        out.extend(next.iter().cloned());
        frontier = next;
    }
    out
}

/// The same space as `deviation_cases`, addressed by index instead of materialised (for spaces of
/// tens of millions of cases): case `idx` of `dev_count(h, m, k)`, ordered by number of deviations.
pub fn dev_count(h: usize, m: usize, k: usize) -> u64 {
    (0..=k).map(|j| binom(h as u64, j as u64) * ipow(m as u64, j)).sum()
}
fn binom(n: u64, r: u64) -> u64 {
    if r > n {
        return 0;
    }
    let mut c: u64 = 1;
    for i in 0..r {
        c = c * (n - i) / (i + 1);
    }
    c
}
pub fn dev_case(h: usize, m: usize, k: usize, mut idx: u64) -> Vec<(u16, u16)> {
    let mut j = 0usize;
    loop {
        let cnt = binom(h as u64, j as u64) * ipow(m as u64, j);
        if idx < cnt {
            break;
        }
        idx -= cnt;
        j += 1;
        assert!(j <= k, "deviation index out of range");
    }
    let alts = ipow(m as u64, j);
    let mut a = idx % alts;
    let mut c = idx / alts;
    // unrank the c-th j-subset of 0..h in lexicographic order
    let mut out = Vec::with_capacity(j);
    let mut start = 0u64;
    for r in (1..=j as u64).rev() {
        let mut p = start;
        loop {
            let below = binom(h as u64 - p - 1, r - 1);
            if c < below {
                break;
            }
            c -= below;
            p += 1;
        }
        out.push((p as u16, 0u16));
        start = p + 1;
    }
    for slot in out.iter_mut().rev() {
        slot.1 = (a % m as u64) as u16;
        a /= m as u64;
    }
    out
}
/// Machinery self-check: the indexed space equals the materialised one (as sets, and in size).
pub fn dev_selftest() {
    for (h, m, k) in [(6usize, 3usize, 3usize), (9, 2, 2), (5, 4, 1), (4, 2, 4)] {
        let mut a = deviation_cases(h, m, k);
        let n = dev_count(h, m, k);
        assert_eq!(a.len() as u64, n, "dev_count disagrees for {:?}", (h, m, k));
        let mut b: Vec<Vec<(u16, u16)>> = (0..n).map(|i| dev_case(h, m, k, i)).collect();
        a.sort();
        b.sort();
        assert!(a == b, "dev_case does not enumerate the deviation space {:?}", (h, m, k));
    }
}
pub fn par_devs<F>(eng: &mut Eng, h: usize, m: usize, k: usize, budget: Budget, f: F)
where
    F: Fn(&Vec<(u16, u16)>, &mut Eng) + Sync,
{
    let n = dev_count(h, m, k);
    let chunk = (n / (threads() as u64 * 32)).clamp(1, 1024);
    par(eng, n, chunk, budget, |i, e| f(&dev_case(h, m, k, i), e));
}

pub fn par_cases<C: Sync, F>(eng: &mut Eng, cases: &[C], budget: Budget, f: F)
where
    F: Fn(&C, &mut Eng) + Sync,
{
    let n = cases.len() as u64;
    let chunk = (n / (threads() as u64 * 32)).clamp(1, 1024);
    par(eng, n, chunk, budget, |i, e| f(&cases[i as usize], e));
}

/// Periodic histories. For every primitive word w over `m` symbols with 1 <= |w| <= maxp: the
/// history w w w ... cut to `h` events, and every history that differs from it in exactly one
/// position (any of the other m-1 symbols). These reach what neither the depth-bounded nor the
/// deviation-bounded enumeration reaches: long histories with *many* resets / rejections /
/// reconnects in a regular pattern (counters, parities, fill levels, warm-up thresholds).
pub fn primitive_words(m: usize, maxp: usize) -> Vec<Vec<usize>> {
    let mut out = Vec::new();
    for p in 1..=maxp {
        let mut w = vec![0usize; p];
        for idx in 0..ipow(m as u64, p) {
            decode(idx, m as u64, &mut w);
            let primitive = !(1..p).any(|d| p % d == 0 && (0..p).all(|i| w[i] == w[i % d]));
            if primitive {
                out.push(w.clone());
            }
        }
    }
    out
}
pub fn periodic_count(m: usize, maxp: usize, h: usize) -> u64 {
    primitive_words(m, maxp).len() as u64 * (1 + (h * (m - 1)) as u64)
}
pub fn par_periodic<F>(eng: &mut Eng, m: usize, maxp: usize, h: usize, budget: Budget, f: F)
where
    F: Fn(&[usize], &mut Eng) -> u64 + Sync,
{
    let words = primitive_words(m, maxp);
    let per = 1 + (h * (m - 1)) as u64;
    let n = words.len() as u64 * per;
    let chunk = (n / (threads() as u64 * 32)).clamp(1, 512);
    par(eng, n, chunk, budget, |i, e| {
        let w = &words[(i / per) as usize];
        let mut seq: Vec<usize> = (0..h).map(|k| w[k % w.len()]).collect();
        let d = i % per;
        if d > 0 {
            let pos = ((d - 1) / (m as u64 - 1)) as usize;
            let alt = ((d - 1) % (m as u64 - 1)) as usize;
            seq[pos] = if alt >= seq[pos] { alt + 1 } else { alt };
        }
        e.executions += 1;
        e.states += 1;
        e.max_depth = e.max_depth.max(h as u64);
        e.transitions += f(&seq, e);
    });
}

/// Long periodic histories around integer-width boundaries: every primitive word of length <= maxp
/// repeated to n events for each n in `lens` (2^8 +- 1, 2^9 +- 1, ...), followed by one final event
/// of each kind. A counter of the wrong width, a saturating tally or a fill level wraps or
/// saturates here and nowhere in the short enumerations.
pub const LONG_LENS: [usize; 6] = [255, 256, 257, 511, 512, 513];
pub fn long_count(m: usize, maxp: usize, lens: &[usize]) -> u64 {
    (primitive_words(m, maxp).len() * lens.len() * m) as u64
}
pub fn par_long<F>(eng: &mut Eng, m: usize, maxp: usize, lens: &[usize], budget: Budget, f: F)
where
    F: Fn(&[usize], &mut Eng) -> u64 + Sync,
{
    let words = primitive_words(m, maxp);
    let n = (words.len() * lens.len() * m) as u64;
    par(eng, n, 1, budget, |i, e| {
        let i = i as usize;
        let last = i % m;
        let len = lens[(i / m) % lens.len()];
        let w = &words[i / (m * lens.len())];
        let mut seq: Vec<usize> = (0..len).map(|k| w[k % w.len()]).collect();
        seq.push(last);
        e.executions += 1;
        e.states += 1;
        e.max_depth = e.max_depth.max(seq.len() as u64);
        e.transitions += f(&seq, e);
    });
}

/// Dense grid of positive ratios for sweeping a continuous parameter (or the quotient of two):
/// `per_octave` geometric steps per factor of two over [2^-octaves, 2^octaves] - irrational, so
/// never a "round" value - plus a cluster around 1 (1 +- 2^-k for k = 3..=20). A defect confined to
/// a band of a parameter (a threshold-selected formula, a deadband, a jitter tolerance) is hit if
/// the band is wider than one grid step (2^(1/per_octave)) or lies within 12 % of ratio 1.
pub fn ratio_grid(per_octave: u32, octaves: i32) -> Vec<f64> {
    let mut v = Vec::new();
    let n = per_octave as i32 * octaves;
    for i in -n..=n {
        v.push((i as f64 / per_octave as f64).exp2());
    }
    for k in 3..=20 {
        let d = (-(k as f64)).exp2();
        v.push(1.0 + d);
        v.push(1.0 - d);
    }
    v.sort_by(|a, b| a.partial_cmp(b).unwrap());
    v.dedup();
    v
}

/// Timestamps spread over the whole i64 range: neighbours here are further apart than i64::MAX,
/// so a comparison done through a (wrapping or saturating) difference instead of `<` goes wrong.
pub const SPREAD: [i64; 8] = [i64::MIN, i64::MIN + 1, -5_000_000_000_000_000_000, -1, 0, 5_000_000_000_000_000_000, i64::MAX - 1, i64::MAX];
/// Strictly increasing maps level -> time for `levels` levels (1..=8) over `SPREAD`: evenly spread,
/// packed at the bottom, packed at the top. Empty for more than 8 levels.
pub fn extreme_level_maps(levels: usize) -> Vec<Vec<i64>> {
    if levels == 0 || levels > 8 {
        return Vec::new();
    }
    if levels == 1 {
        return vec![vec![i64::MIN], vec![i64::MAX]];
    }
    let spread: Vec<i64> = (0..levels).map(|r| SPREAD[r * 7 / (levels - 1)]).collect();
    let bottom: Vec<i64> = (0..levels).map(|r| SPREAD[r]).collect();
    let top: Vec<i64> = (0..levels).map(|r| SPREAD[8 - levels + r]).collect();
    let mut v = vec![spread];
    for m in [bottom, top] {
        if !v.contains(&m) {
            v.push(m);
        }
    }
    v
}

/// All weak orders (ordered set partitions) of k items, as rank vectors: ranks[i] is the
/// level of item i, levels are 0..L-1 and every level is used. 1, 3, 13, 75, 541 for k=1..5.
pub fn weak_orders(k: usize) -> Vec<Vec<usize>> {
    let mut out = Vec::new();
    if k == 0 {
        out.push(vec![]);
        return out;
    }
    let mut ranks = vec![0usize; k];
    let total = ipow(k as u64, k);
    for idx in 0..total {
        decode(idx, k as u64, &mut ranks);
        let mx = *ranks.iter().max().unwrap();
        if (0..=mx).all(|l| ranks.contains(&l)) {
            out.push(ranks.clone());
        }
    }
    out
}

thread_local! {
    static IN_GUARD: std::cell::Cell<u32> = const { std::cell::Cell::new(0) };
}
/// Panics inside `guard` are observations and stay silent; a panic anywhere else is a bug of
/// the harness and is printed (the process then exits non-zero: machinery failure).
pub fn install_quiet_panic_hook() {
    std::panic::set_hook(Box::new(|info| {
        if IN_GUARD.with(|g| g.get()) == 0 {
            eprintln!("HARNESS PANIC (machinery failure, not a verdict): {}", info);
        }
    }));
}

/// Run `f`, turning a panic into an ordinary observation.
pub fn guard<R, F: FnOnce() -> R>(f: F) -> Result<R, String> {
    IN_GUARD.with(|g| g.set(g.get() + 1));
    let res = catch_unwind(AssertUnwindSafe(f));
    IN_GUARD.with(|g| g.set(g.get() - 1));
    match res {
        Ok(r) => Ok(r),
        Err(p) => {
            let msg = if let Some(s) = p.downcast_ref::<&str>() {
                s.to_string()
            } else if let Some(s) = p.downcast_ref::<String>() {
                s.clone()
            } else {
                "<non-string panic>".to_string()
            };
            Err(msg)
        }
    }
}

/// Relative + absolute closeness in units of f32 epsilon of `scale`.
pub fn close(a: f64, b: f64, scale: f64, k: f64) -> bool {
    if a == b {
        return true;
    }
    if a.is_nan() || b.is_nan() {
        return a.is_nan() && b.is_nan();
    }
    (a - b).abs() <= k * (f32::EPSILON as f64) * scale + f64::MIN_POSITIVE
}

/// Is x exactly representable as a (finite, normal-range) f32?
#[inline]
pub fn exact32(x: f64) -> bool {
    (x as f32) as f64 == x
}
