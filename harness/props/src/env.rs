//! Scripted environment: the only sources of nondeterminism an rrtk object can see are its
//! input getters, time getters, inner settables and histories. All of them are owned here.
use rrtk::*;
use std::cell::{Cell, RefCell};
use std::rc::Rc;

pub type E = u8;
pub const E1: Error<E> = Error::Other(1);
pub const E2: Error<E> = Error::Other(2);
pub const E3: Error<E> = Error::Other(3);
/// error value of the single-error alphabets, by event position: `Other(1)` at even positions, the
/// crate's own `FromNone` at odd ones (both variants meet every context without a larger alphabet)
pub fn err_at(k: usize) -> Error<E> {
    if k % 2 == 0 {
        E1
    } else {
        Error::FromNone
    }
}
/// error code used by the event alphabets: 0 is the crate's own `Error::FromNone`, k > 0 is `Error::Other(k)`
pub fn err_val(c: u8) -> Error<E> {
    if c == 0 {
        Error::FromNone
    } else {
        Error::Other(c)
    }
}

pub fn err_code(e: &Error<E>) -> u32 {
    match e {
        Error::FromNone => 1000,
        Error::Other(x) => *x as u32,
        _ => 9999,
    }
}

/// Getter whose next answer is scripted; counts how often it is consulted.
pub struct Scr<T: Clone> {
    pub next: Output<T, E>,
    pub gets: Cell<u64>,
    pub updates: u64,
    pub update_result: NothingOrError<E>,
}
impl<T: Clone> Scr<T> {
    pub fn new(next: Output<T, E>) -> Self {
        Scr {
            next,
            gets: Cell::new(0),
            updates: 0,
            update_result: Ok(()),
        }
    }
}
impl<T: Clone> Getter<T, E> for Scr<T> {
    fn get(&self) -> Output<T, E> {
        self.gets.set(self.gets.get() + 1);
        self.next.clone()
    }
}
impl<T: Clone> Updatable<E> for Scr<T> {
    fn update(&mut self) -> NothingOrError<E> {
        self.updates += 1;
        self.update_result
    }
}

/// Time getter with a scripted answer.
pub struct ScrTime {
    pub next: TimeOutput<E>,
    pub gets: Cell<u64>,
    pub updates: u64,
    pub update_result: NothingOrError<E>,
}
impl ScrTime {
    pub fn new(next: TimeOutput<E>) -> Self {
        ScrTime {
            next,
            gets: Cell::new(0),
            updates: 0,
            update_result: Ok(()),
        }
    }
}
impl TimeGetter<E> for ScrTime {
    fn get(&self) -> TimeOutput<E> {
        self.gets.set(self.gets.get() + 1);
        self.next
    }
}
impl Updatable<E> for ScrTime {
    fn update(&mut self) -> NothingOrError<E> {
        self.updates += 1;
        self.update_result
    }
}

/// Settable that records every impl_set argument and can be told to reject.
pub struct RecSet<S: Clone> {
    pub data: SettableData<S, E>,
    pub log: Vec<S>,
    pub accept: bool,
    pub reject_with: Error<E>,
    pub updates: u64,
    pub update_result: NothingOrError<E>,
    /// interleaved trace of "set"/"update" calls, to check call order
    pub order: Vec<u8>,
}
impl<S: Clone> RecSet<S> {
    pub fn new() -> Self {
        RecSet {
            data: SettableData::new(),
            log: Vec::new(),
            accept: true,
            reject_with: E3,
            updates: 0,
            update_result: Ok(()),
            order: Vec::new(),
        }
    }
}
impl<S: Clone> Settable<S, E> for RecSet<S> {
    fn impl_set(&mut self, value: S) -> NothingOrError<E> {
        self.order.push(b's');
        if self.accept {
            self.log.push(value);
            Ok(())
        } else {
            Err(self.reject_with)
        }
    }
    fn get_settable_data_ref(&self) -> &SettableData<S, E> {
        &self.data
    }
    fn get_settable_data_mut(&mut self) -> &mut SettableData<S, E> {
        &mut self.data
    }
}
impl<S: Clone> Updatable<E> for RecSet<S> {
    fn update(&mut self) -> NothingOrError<E> {
        self.order.push(b'u');
        self.updates += 1;
        self.update_following_data()?;
        self.update_result
    }
}

pub fn rc<T>(x: T) -> Rc<RefCell<T>> {
    Rc::new(RefCell::new(x))
}
pub fn rf<T: ?Sized>(r: &Rc<RefCell<T>>) -> Reference<T> {
    Reference::from_rc_ref_cell(r.clone())
}
/// dyn-Getter reference without going through `to_dyn!` (whose health is property C17's
/// business, not a precondition of the other engines).
pub fn dyn_getter<T: 'static, G: Getter<T, E> + 'static>(
    r: &Rc<RefCell<G>>,
) -> Reference<dyn Getter<T, E>> {
    let d: Rc<RefCell<dyn Getter<T, E>>> = r.clone();
    Reference::from_rc_ref_cell(d)
}
pub fn dyn_time<G: TimeGetter<E> + 'static>(r: &Rc<RefCell<G>>) -> Reference<dyn TimeGetter<E>> {
    let d: Rc<RefCell<dyn TimeGetter<E>>> = r.clone();
    Reference::from_rc_ref_cell(d)
}

/// How the harness reads the exponents (mm, s) of a `Unit` without going through the crate's own
/// unit-equality code (which C01 is checking): the in-memory representation is *learnt* by probing
/// `Unit::new(m, s)` for a handful of (m, s) - for each exponent a byte offset, an integer width
/// (1, 2 or 4 bytes, little endian) and a sign (some representations store the negated second
/// exponent). If no such layout explains the probes (an unforeseen representation) the harness
/// falls back to identifying a unit by the crate's `==` against `Unit::new(m, s)`; `unit_mode()`
/// says which mode is in use (recorded in the evidence). (0,0) on unchecked builds (ZST Unit).
#[derive(Clone, Copy, Debug, PartialEq)]
struct Field {
    off: usize,
    width: usize,
    neg: bool,
}
#[derive(Clone, Copy, Debug, PartialEq)]
enum UnitRepr {
    Layout(Field, Field),
    ByEquality,
}
#[cfg(feature = "dimcheck")]
fn unit_raw(u: Unit) -> Vec<u8> {
    let n = core::mem::size_of::<Unit>();
    let p = &u as *const Unit as *const u8;
    (0..n).map(|i| unsafe { *p.add(i) }).collect()
}
#[cfg(feature = "dimcheck")]
fn field_read(raw: &[u8], f: Field) -> i32 {
    let mut v: i64 = 0;
    for i in 0..f.width {
        v |= (raw[f.off + i] as i64) << (8 * i);
    }
    let bits = 8 * f.width as u32;
    let v = (v << (64 - bits)) >> (64 - bits); // sign-extend
    (if f.neg { -v } else { v }) as i32
}
#[cfg(feature = "dimcheck")]
fn unit_repr() -> UnitRepr {
    use std::sync::OnceLock;
    static REPR: OnceLock<UnitRepr> = OnceLock::new();
    *REPR.get_or_init(|| {
        let probes: [(i8, i8); 7] = [(5, -7), (-3, 2), (0, 0), (100, -100), (-128, 127), (127, -128), (1, 1)];
        let raws: Vec<Vec<u8>> = probes.iter().map(|&(m, s)| unit_raw(Unit::new(m, s))).collect();
        let n = core::mem::size_of::<Unit>();
        let find = |which: usize| -> Option<Field> {
            for width in [1usize, 2, 4] {
                for off in 0..n.saturating_sub(width - 1) {
                    for neg in [false, true] {
                        let f = Field { off, width, neg };
                        // i8::MIN negated does not fit a 1-byte field: skip that probe for negated 1-byte layouts
                        let ok = probes.iter().zip(&raws).all(|(p, raw)| {
                            let want = if which == 0 { p.0 } else { p.1 } as i32;
                            (neg && width == 1 && want == -128) || field_read(raw, f) == want
                        });
                        if ok {
                            return Some(f);
                        }
                    }
                }
            }
            None
        };
        match (find(0), find(1)) {
            (Some(a), Some(b)) if a.off != b.off => UnitRepr::Layout(a, b),
            _ => UnitRepr::ByEquality,
        }
    })
}
pub fn unit_mode() -> String {
    #[cfg(feature = "dimcheck")]
    {
        match unit_repr() {
            UnitRepr::Layout(a, b) => format!("unit exponents read from the representation (size {} bytes; mm at offset {} width {}{}; s at offset {} width {}{})", core::mem::size_of::<Unit>(), a.off, a.width, if a.neg { " negated" } else { "" }, b.off, b.width, if b.neg { " negated" } else { "" }),
            UnitRepr::ByEquality => "unit representation not recognised: units identified through the crate's own == against Unit::new(m, s)".to_string(),
        }
    }
    #[cfg(not(feature = "dimcheck"))]
    {
        "dimension checking compiled out: Unit carries no exponents".to_string()
    }
}
pub fn unit_exps(u: Unit) -> (i32, i32) {
    #[cfg(feature = "dimcheck")]
    {
        match unit_repr() {
            UnitRepr::Layout(a, b) => {
                let raw = unit_raw(u);
                (field_read(&raw, a), field_read(&raw, b))
            }
            UnitRepr::ByEquality => {
                for m in -128i32..=127 {
                    for s in -128i32..=127 {
                        if u == Unit::new(m as i8, s as i8) {
                            return (m, s);
                        }
                    }
                }
                (i32::MIN, i32::MIN)
            }
        }
    }
    #[cfg(not(feature = "dimcheck"))]
    {
        let _ = u;
        (0, 0)
    }
}
/// The same, parsed from the derived Debug output `Unit { millimeter_exp: m, second_exp: s }`;
/// None if the Debug output does not have that shape (Debug formats are not part of any property).
pub fn unit_exps_debug(u: Unit) -> Option<(i32, i32)> {
    let s = format!("{:?}", u);
    let num = |key: &str| -> Option<i32> {
        let p = s.find(key)?;
        let rest = &s[p + key.len()..];
        let end = rest.find(|c: char| c != '-' && !c.is_ascii_digit()).unwrap_or(rest.len());
        rest[..end].parse().ok()
    };
    Some((num("millimeter_exp: ")?, num("second_exp: ")?))
}
pub fn unit_code(u: Unit) -> i32 {
    let (m, s) = unit_exps(u);
    m * 1000 + s
}

/// Canonical observation of an `Output<T,E>`: (tag, time, payload bits).
#[derive(Clone, Copy, Debug, PartialEq, Eq, Hash)]
pub struct Obs {
    pub tag: u32, // 0 = Ok(None), 1 = Ok(Some), 2.. = Err code + 2, 9_000_000 = panicked
    pub time: i64,
    pub bits: [u32; 4],
}
impl Obs {
    pub const NONE: Obs = Obs {
        tag: 0,
        time: 0,
        bits: [0; 4],
    };
    pub const PANIC: Obs = Obs {
        tag: 9_000_000,
        time: 0,
        bits: [0; 4],
    };
    pub fn err(e: &Error<E>) -> Obs {
        Obs {
            tag: 2 + err_code(e),
            time: 0,
            bits: [0; 4],
        }
    }
    pub fn is_err(&self) -> bool {
        self.tag >= 2 && self.tag < 9_000_000
    }
    pub fn is_some(&self) -> bool {
        self.tag == 1
    }
    pub fn is_none(&self) -> bool {
        self.tag == 0
    }
    pub fn f(&self, i: usize) -> f32 {
        f32::from_bits(self.bits[i])
    }
    pub fn show(&self) -> String {
        match self.tag {
            0 => "Ok(None)".to_string(),
            1 => format!(
                "Ok(Some(t={}, [{:?}, {:?}, {:?}, {:?}]))",
                self.time,
                self.f(0),
                self.f(1),
                self.f(2),
                self.bits[3]
            ),
            9_000_000 => "PANIC".to_string(),
            t => format!("Err(code {})", t - 2),
        }
    }
}
pub trait Payload {
    fn bits(&self) -> [u32; 4];
}
impl Payload for f32 {
    fn bits(&self) -> [u32; 4] {
        [self.to_bits(), 0, 0, 0]
    }
}
impl Payload for bool {
    fn bits(&self) -> [u32; 4] {
        [*self as u32, 0, 0, 0]
    }
}
impl Payload for Quantity {
    fn bits(&self) -> [u32; 4] {
        [self.value.to_bits(), 0, 0, unit_code(self.unit) as u32]
    }
}
impl Payload for State {
    fn bits(&self) -> [u32; 4] {
        [
            self.position.to_bits(),
            self.velocity.to_bits(),
            self.acceleration.to_bits(),
            0,
        ]
    }
}
impl Payload for Command {
    fn bits(&self) -> [u32; 4] {
        let (k, v) = match self {
            Command::Position(v) => (1, *v),
            Command::Velocity(v) => (2, *v),
            Command::Acceleration(v) => (3, *v),
        };
        [v.to_bits(), k, 0, 0]
    }
}
pub fn obs<T: Payload>(o: &Output<T, E>) -> Obs {
    match o {
        Ok(None) => Obs::NONE,
        Ok(Some(d)) => Obs {
            tag: 1,
            time: d.time.0,
            bits: d.value.bits(),
        },
        Err(e) => Obs::err(e),
    }
}
pub fn obs_unit(r: &NothingOrError<E>) -> u32 {
    match r {
        Ok(()) => 0,
        Err(e) => 2 + err_code(e),
    }
}

pub const S: i64 = 1_000_000_000;
