//! C14 — State kinematics and State/Command/Quantity conversions are exact and consistent.
use crate::env::*;
use crate::mc::*;
use crate::refmodels::*;
use crate::Ctx;
use rrtk::*;

const COMP: [f32; 8] = [0.0, -0.0, 1.0, -2.0, 0.5, 1024.0, -0.125, 3.0];
const BROAD: [f32; 6] = [0.1, -7.3, 1e3, -3.3e-3, 1e-6, 9999.9];
const DTS: [i64; 12] = [-100_000 * S, -2 * S, -S / 2, -1, 0, 1, 1_000, S / 4, S / 2, 2 * S, 3_600 * S, 100_000 * S];

fn states(vals: &[f32]) -> Vec<State> {
    let mut v = Vec::new();
    for &p in vals {
        for &vel in vals {
            for &a in vals {
                v.push(State::new_raw(p, vel, a));
            }
        }
    }
    v
}
fn bits(s: &State) -> [u32; 3] {
    [s.position.to_bits(), s.velocity.to_bits(), s.acceleration.to_bits()]
}
fn feq(a: f32, b: f32) -> bool {
    a.to_bits() == b.to_bits() || (a.is_nan() && b.is_nan())
}

fn kinematics(e: &mut Eng, sts: &[State], label: &str) {
    for s in sts {
        for &dt in &DTS {
            e.executions += 1;
            e.states += 1;
            e.transitions += 1;
            e.checks += 1;
            if dt != 0 && s.acceleration != 0.0 {
                e.nontrivial += 1;
            }
            let mut got = *s;
            let r = guard(|| {
                got.update(Time(dt));
                got
            });
            let got = match r {
                Ok(g) => g,
                Err(m) => {
                    e.violation("state:update:panic", 1, || format!("{:?}.update({} ns) panicked: {}", s, dt, m));
                    continue;
                }
            };
            e.outcome(h64(&(bits(s), dt, bits(&got))));
            let d = secs(dt);
            let (p, v, a) = (Tr::exact(s.position), Tr::exact(s.velocity), Tr::exact(s.acceleration));
            let v2 = v.add(a.mul(d));
            let p2 = p.add(v.mul(d)).add(a.mul(d).mul(d).div(Tr::exact(2.0)));
            let ok_a = got.acceleration.to_bits() == s.acceleration.to_bits();
            let ok = if dt == 0 { got.position == s.position && got.velocity == s.velocity } else { v2.agrees_any_order(got.velocity, 8.0) && p2.agrees_any_order(got.position, 8.0) };
            if !ok || !ok_a {
                e.violation(&format!("state:update:{}", if dt == 0 { "zero-dt-not-identity" } else if !ok_a { "acceleration-changed" } else { label }), 1, || {
                    format!("{:?}.update({} ns) gave {:?} but v' = v + a dt = {} and p' = p + v dt + a dt^2/2 = {}", s, dt, got, v2.show(), p2.show())
                });
            }
        }
    }
}

/// Dense one-parameter sweeps of State::update: for 8 base (velocity, acceleration) pairs of both
/// signs the interval runs over +-(1 s x ratio grid) (0.24 ms .. 4096 s, 24 steps per octave), so
/// that the dimensionless quantity a*dt/v takes densely spaced values of both signs; the same for
/// the velocity at a fixed interval. Same oracle as the grid engine.
fn kinematic_sweeps(e: &mut Eng) {
    let grid = ratio_grid(24, 12);
    let bases: [(f32, f32); 8] = [(7.1, -2.9), (-11.0, 3.7), (100.0, -190.0), (0.37, 0.059), (-4.3, -8.9), (50.0, 20.0), (1.3e-2, -6.1e-2), (-730.0, 41.0)];
    let mut sts: Vec<(State, i64)> = Vec::new();
    for &(v, a) in &bases {
        for &r in &grid {
            for sign in [1i64, -1] {
                let dt = sign * (r * 1e9).round() as i64;
                sts.push((State::new_raw(2.6, v, a), dt));
            }
            // velocity sweep at dt = +-0.7 s
            sts.push((State::new_raw(-5.2, (v as f64 * r) as f32, a), 700_000_000));
            sts.push((State::new_raw(-5.2, (v as f64 * r) as f32, a), -700_000_000));
        }
        // consecutive steps of equal states whose intervals agree in their low 32 / 16 bits, and of
        // equal intervals with one component changed: update is a pure function of (state, dt)
        for dt in [S, S + (1i64 << 32), S, S - (1i64 << 32), S / 4, S / 4 + (3i64 << 32), S / 4 + (1 << 16), S / 4] {
            sts.push((State::new_raw(2.6, v, a), dt));
        }
        for (dp, dv, da) in [(0.0f32, 0.0f32, 0.0f32), (1.0, 0.0, 0.0), (0.0, 1.0, 0.0), (0.0, 0.0, 1.0), (0.0, 0.0, 0.0), (0.0, -0.0, 0.0)] {
            sts.push((State::new_raw(2.6 + dp, v + dv, a + da), S));
        }
    }
    for (s, dt) in sts {
        e.executions += 1;
        e.states += 1;
        e.transitions += 1;
        e.checks += 1;
        e.nontrivial += 1;
        let mut got = s;
        let r = guard(|| {
            got.update(Time(dt));
            got
        });
        let got = match r {
            Ok(g) => g,
            Err(m) => {
                e.violation("state:update:panic", 1, || format!("{:?}.update({} ns) panicked: {}", s, dt, m));
                continue;
            }
        };
        e.outcome(h64(&(bits(&s), dt, bits(&got))));
        let d = secs(dt);
        let (p, v, a) = (Tr::exact(s.position), Tr::exact(s.velocity), Tr::exact(s.acceleration));
        let v2 = v.add(a.mul(d));
        let p2 = p.add(v.mul(d)).add(a.mul(d).mul(d).div(Tr::exact(2.0)));
        if !(v2.agrees_any_order(got.velocity, 8.0) && p2.agrees_any_order(got.position, 8.0)) || got.acceleration.to_bits() != s.acceleration.to_bits() {
            e.violation("state:update:sweep", 1, || format!("{:?}.update({} ns) gave {:?} but v' = v + a dt = {} and p' = p + v dt + a dt^2/2 = {} (a dt / v = {:.4})", s, dt, got, v2.show(), p2.show(), s.acceleration as f64 * dt as f64 * 1e-9 / s.velocity as f64));
        }
    }
    e.sample(|| "State(2.6, 100, -190).update(10.29 s): a dt / v = -1.955".to_string());
}

fn setters(e: &mut Eng, sts: &[State]) {
    let checked = cfg!(feature = "dimcheck");
    // the grid states, plus states with every pattern of zero components (at rest but accelerating,
    // moving without acceleration, ...): a setter asked for the value a component already has must
    // still zero the higher derivatives
    let mut all: Vec<State> = sts.iter().step_by(5).cloned().collect();
    let ngrid = all.len();
    for &p in &[0.0f32, 2.5] {
        for &v in &[0.0f32, -1.5] {
            for &a in &[0.0f32, 4.0] {
                all.push(State::new_raw(p, v, a));
            }
        }
    }
    for (si, s) in all.iter().enumerate() {
      // arguments: a fixed value for the grid states; for the zero-pattern states also each current
      // component and both zeros (argument equal to what is already there)
      let args: Vec<f32> = if si < ngrid { vec![7.5] } else { vec![7.5, s.position, s.velocity, s.acceleration, 0.0, -0.0] };
      for &arg in &args {
        for m in -3..=3i8 {
            for sx in -3..=3i8 {
                let u = Unit::new(m, sx);
                let qv = Quantity::new(arg, u);
                for which in 0..3 {
                    e.executions += 1;
                    e.states += 1;
                    e.transitions += 1;
                    e.checks += 1;
                    let right = !checked || (m as i32, sx as i32) == [(1, 0), (1, -1), (1, -2)][which];
                    if !right {
                        e.nontrivial += 1;
                    }
                    let mut st = *s;
                    let r = match which {
                        0 => st.set_constant_position(qv),
                        1 => st.set_constant_velocity(qv),
                        _ => st.set_constant_acceleration(qv),
                    };
                    let want = if right {
                        match which {
                            0 => State::new_raw(arg, 0.0, 0.0),
                            1 => State::new_raw(s.position, arg, 0.0),
                            _ => State::new_raw(s.position, s.velocity, arg),
                        }
                    } else {
                        *s
                    };
                    let name = ["set_constant_position", "set_constant_velocity", "set_constant_acceleration"][which];
                    if r.is_ok() != right || bits(&st) != bits(&want) {
                        e.violation(&format!("state:{}:{}", name, if right { "accepted-case" } else { "rejected-case" }), 1, || {
                            format!("{:?}.{}({:?} with unit exponents ({},{})) returned {:?} and left {:?}; expected {} and {:?}", s, name, arg, m, sx, r, st, if right { "Ok" } else { "Err" }, want)
                        });
                    }
                    e.outcome(h64(&(which, m, sx, bits(&st))));
                }
            }
        }
        // raw setters
        let mut a = *s;
        a.set_constant_position_raw(arg);
        let mut b = *s;
        b.set_constant_velocity_raw(arg);
        let mut c = *s;
        c.set_constant_acceleration_raw(arg);
        e.checks += 1;
        if bits(&a) != bits(&State::new_raw(arg, 0.0, 0.0)) || bits(&b) != bits(&State::new_raw(s.position, arg, 0.0)) || bits(&c) != bits(&State::new_raw(s.position, s.velocity, arg)) {
            e.violation("state:raw-setters", 1, || format!("{:?}: raw setters with argument {:?} gave {:?} {:?} {:?}", s, arg, a, b, c));
        }
      }
    }
}

fn conversions(e: &mut Eng, sts: &[State]) {
    let checked = cfg!(feature = "dimcheck");
    for s in sts {
        e.executions += 1;
        e.states += 1;
        e.transitions += 1;
        e.checks += 1;
        let c = Command::from(*s);
        let want = if s.acceleration != 0.0 {
            Command::Acceleration(s.acceleration)
        } else if s.velocity != 0.0 {
            Command::Velocity(s.velocity)
        } else {
            Command::Position(s.position)
        };
        if s.acceleration == 0.0 && s.velocity != 0.0 || s.acceleration == 0.0 && s.velocity == 0.0 {
            e.nontrivial += 1;
        }
        if format!("{:?}", c) != format!("{:?}", want) {
            e.violation("command:from-state", 1, || format!("Command::from({:?}) = {:?}, lowest non-zero derivative is {:?}", s, c, want));
        }
        // accessors
        let (gp, gv, ga) = (s.get_position(), s.get_velocity(), s.get_acceleration());
        let okv = feq(gp.value, s.position) && feq(gv.value, s.velocity) && feq(ga.value, s.acceleration);
        let oku = !checked || (unit_exps(gp.unit) == (1, 0) && unit_exps(gv.unit) == (1, -1) && unit_exps(ga.unit) == (1, -2));
        let gvs = [s.get_value(PositionDerivative::Position), s.get_value(PositionDerivative::Velocity), s.get_value(PositionDerivative::Acceleration)];
        let okg = feq(gvs[0].value, s.position) && feq(gvs[1].value, s.velocity) && feq(gvs[2].value, s.acceleration) && (!checked || (unit_exps(gvs[0].unit) == (1, 0) && unit_exps(gvs[1].unit) == (1, -1) && unit_exps(gvs[2].unit) == (1, -2)));
        let rebuilt = guard(|| State::new(gp, gv, ga));
        if !okv || !oku || !okg || rebuilt.as_ref().map(|r| bits(r) == bits(s)).unwrap_or(false) == false {
            e.violation("state:accessors", 1, || format!("{:?}: accessors {:?} {:?} {:?} / get_value {:?} / State::new round trip {:?}", s, gp, gv, ga, gvs, rebuilt));
        }
        e.outcome(h64(&(bits(s), format!("{:?}", c))));
    }
    // State::new rejects wrongly dimensioned arguments (checked builds)
    for m in -3..=3i8 {
        for sx in -3..=3i8 {
            for slot in 0..3 {
                e.executions += 1;
                e.checks += 1;
                let u = Unit::new(m, sx);
                let mut args = [Quantity::new(1.0, MILLIMETER), Quantity::new(2.0, MILLIMETER_PER_SECOND), Quantity::new(3.0, MILLIMETER_PER_SECOND_SQUARED)];
                args[slot] = Quantity::new(9.0, u);
                let right = !checked || (m as i32, sx as i32) == [(1, 0), (1, -1), (1, -2)][slot];
                let r = guard(|| State::new(args[0], args[1], args[2]));
                if r.is_ok() != right {
                    e.violation("state:new-dimension-check", 1, || format!("State::new with argument {} of unit exponents ({},{}): {:?}", slot, m, sx, r));
                }
            }
        }
    }
    // Command accessors and round trips
    for (k, pd) in [PositionDerivative::Position, PositionDerivative::Velocity, PositionDerivative::Acceleration].into_iter().enumerate() {
        for &x in &[0.0f32, -0.0, 1.0, -2.5, 1e-40, f32::MAX, f32::MIN_POSITIVE, 1024.0] {
            e.executions += 1;
            e.states += 1;
            e.checks += 1;
            e.nontrivial += 1;
            let c = Command::new(pd, x);
            let kind_ok = PositionDerivative::from(c) == pd;
            let raw_ok = feq(f32::from(c), x);
            let qc = Quantity::from(c);
            let q_ok = feq(qc.value, x) && (!checked || unit_exps(qc.unit) == [(1, 0), (1, -1), (1, -2)][k]);
            let gp = c.get_position().map(|q| (q.value.to_bits(), unit_exps(q.unit)));
            let gv = c.get_velocity().map(|q| (q.value.to_bits(), unit_exps(q.unit)));
            let ga = (c.get_acceleration().value.to_bits(), unit_exps(c.get_acceleration().unit));
            let ue = |m: i32, s: i32| if checked { (m, s) } else { (0, 0) };
            let (wp, wv, wa) = match k {
                0 => (Some((x.to_bits(), ue(1, 0))), Some((0.0f32.to_bits(), ue(1, -1))), (0.0f32.to_bits(), ue(1, -2))),
                1 => (None, Some((x.to_bits(), ue(1, -1))), (0.0f32.to_bits(), ue(1, -2))),
                _ => (None, None, (x.to_bits(), ue(1, -2))),
            };
            let round = format!("{:?}", Command::new(PositionDerivative::from(c), f32::from(c))) == format!("{:?}", c);
            #[cfg(feature = "dimcheck")]
            let tq = Command::try_from(qc).map(|c2| format!("{:?}", c2) == format!("{:?}", c)).unwrap_or(false);
            #[cfg(not(feature = "dimcheck"))]
            let tq = true;
            if !(kind_ok && raw_ok && q_ok && gp == wp && gv == wv && ga == wa && round && tq) {
                e.violation("command:accessors", 1, || format!("{:?}: kind ok {} raw ok {} quantity {:?} get_position {:?} get_velocity {:?} get_acceleration {:?} round trip {} try_from {}", c, kind_ok, raw_ok, qc, gp, gv, ga, round, tq));
            }
        }
    }
}

fn arithmetic(e: &mut Eng) {
    let ss = [State::new_raw(1.0, -2.0, 0.5), State::new_raw(-0.0, 1024.0, 1e-40), State::new_raw(0.1, -7.3, 1e3), State::new_raw(f32::MAX, 3.0, -1.0)];
    let fs = [2.0f32, -0.5, 0.0, 3.3];
    for a in &ss {
        for b in &ss {
            e.executions += 1;
            e.states += 1;
            e.checks += 1;
            e.nontrivial += 1;
            let sum = *a + *b;
            let dif = *a - *b;
            let mut s2 = *a;
            s2 += *b;
            let mut d2 = *a;
            d2 -= *b;
            let ok = feq(sum.position, a.position + b.position)
                && feq(sum.velocity, a.velocity + b.velocity)
                && feq(sum.acceleration, a.acceleration + b.acceleration)
                && feq(dif.position, a.position - b.position)
                && feq(dif.velocity, a.velocity - b.velocity)
                && feq(dif.acceleration, a.acceleration - b.acceleration)
                && bits(&s2) == bits(&sum)
                && bits(&d2) == bits(&dif);
            if !ok {
                e.violation("state:arithmetic", 1, || format!("{:?} +/- {:?} = {:?} / {:?}", a, b, sum, dif));
            }
        }
        for &f in &fs {
            e.executions += 1;
            e.checks += 1;
            let m = *a * f;
            let d = *a / f;
            let n = -*a;
            let mut m2 = *a;
            m2 *= f;
            let mut d2 = *a;
            d2 /= f;
            let ok = feq(m.position, a.position * f) && feq(m.velocity, a.velocity * f) && feq(m.acceleration, a.acceleration * f) && feq(d.position, a.position / f) && feq(d.velocity, a.velocity / f) && feq(d.acceleration, a.acceleration / f) && feq(n.position, -a.position) && feq(n.velocity, -a.velocity) && feq(n.acceleration, -a.acceleration) && feq(m2.position, m.position) && feq(m2.velocity, m.velocity) && feq(m2.acceleration, m.acceleration) && feq(d2.position, d.position) && feq(d2.velocity, d.velocity) && feq(d2.acceleration, d.acceleration);
            if !ok {
                e.violation("state:arithmetic", 1, || format!("{:?} scaled by {}: {:?} {:?} {:?}", a, f, m, d, n));
            }
        }
    }
    let pds = [PositionDerivative::Position, PositionDerivative::Velocity, PositionDerivative::Acceleration];
    for (i, &pa) in pds.iter().enumerate() {
        for (j, &pb) in pds.iter().enumerate() {
            for &(x, y) in &[(3.0f32, -1.5f32), (0.1, 7e6), (-0.0, 0.0)] {
                let (a, b) = (Command::new(pa, x), Command::new(pb, y));
                type F = fn(Command, Command) -> Command;
                let forms: [(&str, F, fn(f32, f32) -> f32); 4] = [
                    ("+", |a, b| a + b, |x, y| x + y),
                    ("-", |a, b| a - b, |x, y| x - y),
                    ("+=", |mut a, b| { a += b; a }, |x, y| x + y),
                    ("-=", |mut a, b| { a -= b; a }, |x, y| x - y),
                ];
                for (name, f, raw) in forms {
                    e.executions += 1;
                    e.states += 1;
                    e.checks += 1;
                    if i != j {
                        e.nontrivial += 1;
                    }
                    let r = guard(|| f(a, b));
                    match (r, i == j) {
                        (Ok(c), true) => {
                            if PositionDerivative::from(c) != pa || !feq(f32::from(c), raw(x, y)) {
                                e.violation(&format!("command:arithmetic:{}", name), 1, || format!("{:?} {} {:?} = {:?}", a, name, b, c));
                            }
                        }
                        (Err(_), false) => {}
                        (Ok(c), false) => e.violation(&format!("command:arithmetic:{}:kinds-differ-no-panic", name), 1, || format!("{:?} {} {:?} returned {:?} instead of panicking", a, name, b, c)),
                        (Err(m), true) => e.violation(&format!("command:arithmetic:{}:panic", name), 1, || format!("{:?} {} {:?} panicked: {}", a, name, b, m)),
                    }
                }
            }
        }
        for &f in &fs {
            let a = Command::new(pa, 6.5);
            e.executions += 1;
            e.checks += 1;
            let m = a * f;
            let d = a / f;
            let n = -a;
            let mut m2 = a;
            m2 *= f;
            let mut d2 = a;
            d2 /= f;
            let ok = [m, d, n, m2, d2].iter().all(|c| PositionDerivative::from(*c) == pa) && feq(f32::from(m), 6.5 * f) && feq(f32::from(d), 6.5 / f) && feq(f32::from(n), -6.5) && feq(f32::from(m2), 6.5 * f) && feq(f32::from(d2), 6.5 / f);
            if !ok {
                e.violation("command:arithmetic:scale", 1, || format!("{:?} scaled by {}: {:?} {:?} {:?} {:?} {:?}", a, f, m, d, n, m2, d2));
            }
        }
    }
}

/// "lowest non-zero derivative" is a zero test: sweep values around zero (subnormals, MIN_POSITIVE,
/// values below f32::EPSILON) in the velocity and acceleration slots.
fn zero_boundary(e: &mut Eng) {
    let tiny = [0.0f32, -0.0, f32::from_bits(1), -f32::from_bits(1), f32::MIN_POSITIVE, -f32::MIN_POSITIVE, 1e-38, -1e-30, 1e-20, -1e-10, 1e-7, -5e-8, f32::EPSILON, -f32::EPSILON, 1e-3, -1.0];
    for &p in &[0.0f32, 3.5, -1e-7] {
        for &v in &tiny {
            for &a in &tiny {
                e.executions += 1;
                e.states += 1;
                e.transitions += 1;
                e.checks += 1;
                e.nontrivial += 1;
                let s = State::new_raw(p, v, a);
                let c = Command::from(s);
                let want = if a != 0.0 { Command::Acceleration(a) } else if v != 0.0 { Command::Velocity(v) } else { Command::Position(p) };
                if format!("{:?}", c) != format!("{:?}", want) {
                    e.violation("command:from-state", 1, || format!("Command::from({:?}) = {:?}, lowest non-zero derivative is {:?}", s, c, want));
                }
                e.outcome(h64(&(p.to_bits(), v.to_bits(), a.to_bits())));
            }
        }
    }
    e.sample(|| "Command::from(State(3.5, 1e-7, 0)) = Velocity(1e-7)".to_string());
}

pub fn run(_ctx: &Ctx) -> Vec<Eng> {
    let exact = states(&COMP);
    let broad = states(&BROAD);
    let mut e1 = Eng::new(
        "c14-kinematics",
        "State::update on all 8^3 states over {0,-0,1,-2,0.5,1024,-0.125,3} and 6^3 over {0.1,-7.3,1e3,-3.3e-3,1e-6,9999.9} x dt in {-1e5 s,-2 s,-0.5 s,-1 ns,0,1 ns,1 us,0.25 s,0.5 s,2 s,1 h,1e5 s}: v' = v + a dt, p' = p + v dt + a dt^2/2 (f64 reference: bit-exact where every evaluation order is exact, else 8x forward-error bound), acceleration bits unchanged, dt = 0 the identity; non-trivial = dt != 0 and a != 0",
        "728 states x 12 intervals",
    );
    kinematics(&mut e1, &exact, "exact-alphabet");
    kinematics(&mut e1, &broad, "broad-alphabet");
    kinematic_sweeps(&mut e1);
    e1.bounds.push_str("; plus dense sweeps: 8 base (v, a) pairs x the interval over +-(1 s x ratio grid: 24 steps per octave over 2^-12..2^12 plus 1 +- 2^-k) and x the velocity over the same grid at +-0.7 s (a*dt/v densely covered in both signs)");
    e1.sample(|| "State(1,-2,0.5).update(-0.5 s) -> v' = -2.25, p' = 2.0625".to_string());
    let mut e2 = Eng::new(
        "c14-setters",
        "the three Quantity setters x all 49 grid units x a spread of states: Ok and higher derivatives zeroed iff the unit is the right one, otherwise Err and the state bit-identical; raw setters; non-trivial = wrongly dimensioned argument",
        "44 states x 49 units x 3 setters",
    );
    setters(&mut e2, &exact);
    e2.sample(|| "State(0,1,-2).set_constant_velocity(7.5 mm) -> Err, state untouched".to_string());
    let mut e3 = Eng::new(
        "c14-conversions",
        "Command::from(State) on all 512+216 states (lowest non-zero derivative, -0 counts as zero); State accessors, get_value, State::new round trip and its dimension check over 49 units x 3 slots; Command kind/raw/Quantity/per-derivative accessors and round trips over 3 kinds x 8 values incl. +-0, MAX, subnormal; non-trivial = conversion that must look past a zero derivative",
        "",
    );
    conversions(&mut e3, &exact);
    conversions(&mut e3, &broad);
    zero_boundary(&mut e3);
    e3.sample(|| "Command::from(State(3,-0,0)) = Position(3)".to_string());
    let mut e4 = Eng::new(
        "c14-arithmetic",
        "State +,-,+=,-= (16 pairs) and *,/,*=,/=,neg by 4 scalars: component-wise raw f32 operators; Command +,-,+=,-= on all 9 kind pairs x 3 value pairs: same kind => value operator, different kinds => panic; Command *,/,neg and assign forms keep the kind; non-trivial = mixed-kind command pair",
        "",
    );
    arithmetic(&mut e4);
    e4.sample(|| "Command::Position(3) - Command::Velocity(-1.5) must panic".to_string());
    vec![e1, e2, e3, e4]
}
