//! C11 — CommandPID integrates its PID output 0, 1 or 2 times, by command kind.
use crate::env::*;
use crate::mc::*;
use crate::refmodels::*;
use crate::Ctx;
use rrtk::streams::control::*;
use rrtk::*;

#[derive(Clone, Copy, Debug, PartialEq)]
pub enum Ev {
    P(i64, usize), // interval, state index
    N(i64),
    Er(i64),
    Set(usize),    // explicit set(TARGETS[i])
    Follow(usize), // the followed command getter now returns TARGETS[i]
}
pub const STATES: [(f32, f32, f32); 2] = [(1.0, -2.0, 0.5), (-4.0, 3.0, 2.0)];
pub const NT: usize = 9;
pub const TARGETS: [Command; NT] = [
    Command::Position(3.0),
    // (the second value of each kind is the negation of the first: opposite-signed values of
    // different kinds are where bit-level encodings of a command collide)
    Command::Position(-3.0),
    Command::Velocity(3.0),
    Command::Velocity(-3.0),
    Command::Acceleration(3.0),
    Command::Acceleration(-3.0),
    // one f32 ulp away from the first value of each kind: a *different* command
    Command::Position(3.000_000_2),
    Command::Velocity(3.000_000_2),
    Command::Acceleration(3.000_000_2),
];
pub fn kvals() -> PositionDerivativeDependentPIDKValues {
    PositionDerivativeDependentPIDKValues::new(PIDKValues::new(2.0, 0.5, 0.25), PIDKValues::new(1.0, 0.25, 0.5), PIDKValues::new(0.5, 1.0, 2.0))
}
fn gains(c: Command) -> (f32, f32, f32) {
    match c {
        Command::Position(_) => (2.0, 0.5, 0.25),
        Command::Velocity(_) => (1.0, 0.25, 0.5),
        Command::Acceleration(_) => (0.5, 1.0, 2.0),
    }
}
fn comp(c: Command, s: (f32, f32, f32)) -> f32 {
    match c {
        Command::Position(_) => s.0,
        Command::Velocity(_) => s.1,
        Command::Acceleration(_) => s.2,
    }
}
pub fn show(h: &[Ev]) -> String {
    h.iter()
        .map(|e| match e {
            Ev::P(d, i) => format!("P(+{}ns,state{})", d, i),
            Ev::N(_) => "N".to_string(),
            Ev::Er(_) => "E".to_string(),
            Ev::Set(i) => format!("set({:?})", TARGETS[*i]),
            Ev::Follow(i) => format!("followed:={:?}", TARGETS[*i]),
        })
        .collect::<Vec<_>>()
        .join(",")
}

#[derive(Clone, Copy)]
struct Rec {
    t: i64,
    u: Tr,
    e: Tr,
    u1: Option<(Tr, Tr, Option<Tr>)>, // (integral of u, integral of e, double integral of u)
}
/// what get() must return
#[derive(Clone, Copy)]
enum Exp {
    None,
    Err,
    ErrOrNone,
    Some(i64, Tr),
}
struct Ref {
    cmd: Command,
    followed: Option<Command>,
    rec: Option<Rec>,
    err: bool,
    err_open: bool,
}
impl Ref {
    fn set(&mut self, c: Command) {
        // "equal to the current one" is decided on the kind and the raw f32 value by the harness
        // itself, never through the crate's own `PartialEq for Command` (which is code under test)
        let raw = |c: Command| match c {
            Command::Position(v) => (1u8, v),
            Command::Velocity(v) => (2u8, v),
            Command::Acceleration(v) => (3u8, v),
        };
        if raw(c) != raw(self.cmd) {
            if self.err {
                // the property leaves open what get() returns between an error and the next
                // present sample when a different command is set in between
                self.err_open = true;
            }
            self.rec = None;
            self.cmd = c;
        }
    }
    fn pre_update(&mut self) {
        if let Some(f) = self.followed {
            self.set(f);
        }
    }
    fn sample(&mut self, t: i64, s: (f32, f32, f32)) {
        self.err = false;
        self.err_open = false;
        let (kp, ki, kd) = gains(self.cmd);
        let k = |e: Tr, i: Tr, d: Tr| Tr::exact(kp).mul(e).add(Tr::exact(ki).mul(i)).add(Tr::exact(kd).mul(d));
        let e = Tr::exact(f32::from(self.cmd)).sub(Tr::exact(comp(self.cmd, s)));
        let two = Tr::exact(2.0);
        self.rec = Some(match self.rec {
            None => Rec { t, u: k(e, Tr::exact(0.0), Tr::exact(0.0)), e, u1: None },
            Some(r) => {
                let dt = secs(t - r.t);
                let d = e.sub(r.e).div(dt);
                let iadd = r.e.add(e).div(two).mul(dt);
                match r.u1 {
                    None => {
                        let u = k(e, iadd, d);
                        let uint = r.u.add(u).div(two).mul(dt);
                        Rec { t, u, e, u1: Some((uint, iadd, None)) }
                    }
                    Some((uint, eint, uu)) => {
                        let i = eint.add(iadd);
                        let u = k(e, i, d);
                        let uint2 = uint.add(r.u.add(u).div(two).mul(dt));
                        let uuadd = uint.add(uint2).div(two).mul(dt);
                        let uu2 = match uu {
                            None => uuadd,
                            Some(x) => x.add(uuadd),
                        };
                        Rec { t, u, e, u1: Some((uint2, i, Some(uu2))) }
                    }
                }
            }
        });
    }
    fn expect(&self) -> Exp {
        if self.err {
            return if self.err_open { Exp::ErrOrNone } else { Exp::Err };
        }
        match self.rec {
            None => Exp::None,
            Some(r) => match self.cmd {
                Command::Position(_) => Exp::Some(r.t, r.u),
                Command::Velocity(_) => match r.u1 {
                    Some((ui, _, _)) => Exp::Some(r.t, ui),
                    None => Exp::None,
                },
                Command::Acceleration(_) => match r.u1 {
                    Some((_, _, Some(uu))) => Exp::Some(r.t, uu),
                    _ => Exp::None,
                },
            },
        }
    }
}

/// Run a history on the real CommandPID; per event (update result or 0 for set/follow, get).
pub fn run_real(init: Command, follow: bool, h: &[Ev], t0: i64) -> Vec<(u32, Obs)> {
    let inp = rc(Scr::<State>::new(Ok(None)));
    let cmdg = rc(Scr::<Command>::new(Ok(Some(Datum::new(Time(0), init)))));
    let mut pid = CommandPID::new(rf(&inp), init, kvals());
    if follow {
        pid.follow(dyn_getter(&cmdg));
    }
    let mut t = t0;
    let mut out = Vec::with_capacity(h.len());
    for (k, e) in h.iter().enumerate() {
        let u = match e {
            Ev::P(d, i) => {
                t += d;
                let s = STATES[*i];
                inp.borrow_mut().next = Ok(Some(Datum::new(Time(t), State::new_raw(s.0, s.1, s.2))));
                obs_unit(&pid.update())
            }
            Ev::N(d) => {
                t += d;
                inp.borrow_mut().next = Ok(None);
                obs_unit(&pid.update())
            }
            Ev::Er(d) => {
                t += d;
                inp.borrow_mut().next = Err(err_at(k));
                obs_unit(&pid.update())
            }
            Ev::Set(i) => obs_unit(&pid.set(TARGETS[*i])),
            Ev::Follow(i) => {
                cmdg.borrow_mut().next = Ok(Some(Datum::new(Time(t), TARGETS[*i])));
                0
            }
        };
        out.push((u, obs(&pid.get())));
    }
    out
}

pub fn check_history(init: Command, follow: bool, h: &[Ev], e: &mut Eng, meta: bool) -> u64 {
    let n = h.len();
    let t0 = 5 * S;
    let mut applied = n as u64;
    let main = match guard(|| run_real(init, follow, h, t0)) {
        Ok(m) => m,
        Err(m) => {
            e.violation("cpid:panic", n, || format!("initial {:?} follow={} history [{}] panicked: {}", init, follow, show(h), m));
            return applied;
        }
    };
    e.outcome(h64(&(f32::from(init).to_bits(), follow, &main)));
    let mut r = Ref { cmd: init, followed: if follow { Some(init) } else { None }, rec: None, err: false, err_open: false };
    let mut t = t0;
    let mut samples_since_reset = 0;
    let mut last_err = 0usize; // position of the most recent error event (its value depends on the position)
    let mut nontrivial = false;
    let (mut n_exact, mut n_tol) = (0i128, 0i128);
    for (k, ev) in h.iter().enumerate() {
        e.checks += 1;
        let mut exp_u: Option<u32> = Some(0);
        match ev {
            Ev::P(d, i) => {
                t += d;
                r.pre_update();
                if r.rec.is_none() {
                    samples_since_reset = 0;
                }
                r.sample(t, STATES[*i]);
                samples_since_reset += 1;
                if samples_since_reset >= 3 {
                    nontrivial = true;
                }
            }
            Ev::N(d) => {
                t += d;
                r.pre_update();
                r.rec = None;
                r.err = false;
                r.err_open = false;
            }
            Ev::Er(d) => {
                t += d;
                r.pre_update();
                r.rec = None;
                r.err = true;
                r.err_open = false;
                last_err = k;
                exp_u = Some(obs_unit(&Err(err_at(k))));
            }
            Ev::Set(i) => r.set(TARGETS[*i]),
            Ev::Follow(i) => {
                if follow {
                    r.followed = Some(TARGETS[*i]);
                }
                exp_u = None;
            }
        }
        let (u, got) = main[k];
        let exp = r.expect();
        let ok_u = exp_u.map(|x| x == u).unwrap_or(true);
        let ok_g = match exp {
            Exp::None => got.is_none(),
            Exp::Err => got == Obs::err(&err_at(last_err)),
            Exp::ErrOrNone => got.is_none() || got == Obs::err(&err_at(last_err)),
            Exp::Some(tt, v) => {
                if v.robust {
                    n_exact += 1;
                } else {
                    n_tol += 1;
                }
                got.is_some() && got.time == tt && v.agrees(got.f(0), 8.0)
            }
        };
        if !(ok_u && ok_g) {
            let cls = match (exp, ok_u) {
                (_, false) => "update-result",
                (Exp::None, _) => "should-be-absent",
                (Exp::Err, _) | (Exp::ErrOrNone, _) => "should-report-error",
                (Exp::Some(..), _) => {
                    if got.is_some() {
                        "value"
                    } else {
                        "should-be-present"
                    }
                }
            };
            e.violation(&format!("cpid:{}", cls), k + 1, || {
                format!(
                    "initial {:?} follow={} history [{}]: after event {} update/set returned {} and get() = {} but the staged PID reference (command now {:?}) expects {}",
                    init,
                    follow,
                    show(&h[..=k]),
                    k,
                    u,
                    got.show(),
                    r.cmd,
                    match exp {
                        Exp::None => "absent".to_string(),
                        Exp::Err => format!("Err({:?})", err_at(last_err)),
                        Exp::ErrOrNone => format!("Err({:?}) or absent", err_at(last_err)),
                        Exp::Some(tt, v) => format!("{} at time {}", v.show(), tt),
                    }
                )
            });
            break;
        }
    }
    if nontrivial {
        e.nontrivial += 1;
    }
    e.count("bit_exact_reference_checks", n_exact);
    e.count("tolerance_reference_checks", n_tol);
    if meta {
        for shift in [-1_000_000_000_000_000i64, 100_000_000_000_000_000] {
            if let Ok(sh) = guard(|| run_real(init, follow, h, t0 + shift)) {
                applied += n as u64;
                for k in 0..n {
                    let (a, b) = (main[k], sh[k]);
                    let same = a.0 == b.0 && a.1.tag == b.1.tag && a.1.bits == b.1.bits && (a.1.tag != 1 || a.1.time + shift == b.1.time);
                    if !same {
                        e.violation("cpid:shift-variance", k + 1, || format!("history [{}]: timestamps shifted by {}: event {} gives {} instead of {}", show(&h[..=k]), shift, k, b.1.show(), a.1.show()));
                        break;
                    }
                }
            }
        }
    }
    applied
}

pub fn syms(follow: bool) -> Vec<Ev> {
    let mut v = vec![Ev::P(S / 2, 0), Ev::P(S / 2, 1), Ev::P(2 * S, 0), Ev::P(2 * S, 1), Ev::N(S), Ev::Er(S)];
    for i in 0..NT {
        v.push(Ev::Set(i));
    }
    if follow {
        for i in 0..NT {
            v.push(Ev::Follow(i));
        }
    }
    v
}

pub fn run(ctx: &Ctx) -> Vec<Eng> {
    let budget = Budget::secs(if ctx.thorough { 2000 } else { 120 });
    let inits = [TARGETS[0], TARGETS[2], TARGETS[4]];
    let depth = if ctx.thorough { 7 } else { 6 };
    let s0 = syms(false);
    let mut e1 = Eng::new(
        "c11-seqs-set",
        "all histories of exactly `depth` events over {P(dt,state): dt in {0.5,2}s x 2 dyadic states, N, E1, set(c) for 9 commands (2 values x 3 kinds plus, per kind, a value one f32 ulp away from the first; equal to the current one or not)} x 3 initial command kinds, gains distinct per kind; after every event get() must equal the staged reference (PID law on the error of the commanded component; output / its trapezoid integral / its double integral by kind; absent for the first 0/1/2 samples after a start or reset; set(same) changes nothing; set(different) => absent and restart; N resets; E reported until the next present sample which starts afresh), bit-exact; shift invariance; non-trivial = three or more samples since the last reset",
        &format!("depth {} => 15^{} histories x 3 initial kinds", depth, depth),
    );
    for init in inits {
        par_seqs(&mut e1, s0.len(), depth, budget, |seq, e| {
            let h: Vec<Ev> = seq.iter().map(|&s| s0[s]).collect();
            let a = check_history(init, false, &h, e, true);
            e.sample(|| format!("init {:?} [{}]", init, show(&h)));
            a
        });
    }
    let fdepth = if ctx.thorough { 5 } else { 4 };
    let s1 = syms(true);
    let mut e2 = Eng::new(
        "c11-seqs-follow",
        "same with the controller following a scripted command getter: alphabet extended by 'followed command changes to c' (6 commands); the change arrives through update_following_data at the next update",
        &format!("depth {} => 24^{} histories x 3 initial kinds", fdepth, fdepth),
    );
    for init in inits {
        par_seqs(&mut e2, s1.len(), fdepth, budget, |seq, e| {
            let h: Vec<Ev> = seq.iter().map(|&s| s1[s]).collect();
            let a = check_history(init, true, &h, e, false);
            e.sample(|| format!("init {:?} [{}]", init, show(&h)));
            a
        });
    }
    let (hz, k) = if ctx.thorough { (48, 3) } else { (40, 2) };
    dev_selftest();
    let mut e3 = Eng::new(
        "c11-deviations",
        "all histories of exactly H events differing from the default stream P(0.5 s, alternating states) in at most k positions, deviations {N, E1, P(2 s), set(c) x 9}; 3 initial kinds (exercises long accumulation of the single and double integrals)",
        &format!("H={} k={}", hz, k),
    );
    for init in inits {
        par_devs(&mut e3, hz, 12, k, budget, |c, e| {
            let mut h: Vec<Ev> = (0..hz).map(|i| Ev::P(S / 2, i % 2)).collect();
            for &(p, a) in c {
                h[p as usize] = match a {
                    0 => Ev::N(S),
                    1 => Ev::Er(S),
                    2 => Ev::P(2 * S, (p as usize + 1) % 2),
                    x => Ev::Set(x as usize - 3),
                };
            }
            e.executions += 1;
            e.states += 1;
            e.max_depth = e.max_depth.max(hz as u64);
            e.transitions += check_history(init, false, &h, e, c.len() < 2);
            if c.len() == k {
                e.sample(|| format!("init {:?} [{}]", init, show(&h)));
            }
        });
    }
    let (ph, maxp) = if ctx.thorough { (48, 4) } else { (40, 3) };
    // core alphabet: two sample kinds, absent, error, set to the same kind (other value), set to each other kind
    let mut e4 = Eng::new(
        "c11-periodic",
        "periodic histories: every primitive word of length <= p over {P(0.5 s, s0), P(0.5 s, s1), P(2 s, s0), N, E1, set(position), set(velocity), set(acceleration)} repeated to H events, and every history differing from one of these in exactly one position; 3 initial kinds (long runs with many resets / command changes in a regular pattern)",
        &format!("H={} p<={} => {} histories x 3 initial kinds", ph, maxp, periodic_count(8, maxp, ph)),
    );
    for init in inits {
        par_periodic(&mut e4, 8, maxp, ph, budget, |seq, e| {
            let h: Vec<Ev> = seq
                .iter()
                .map(|&s| match s {
                    0 => Ev::P(S / 2, 0),
                    1 => Ev::P(S / 2, 1),
                    2 => Ev::P(2 * S, 0),
                    3 => Ev::N(S),
                    4 => Ev::Er(S),
                    5 => Ev::Set(0),
                    6 => Ev::Set(2),
                    _ => Ev::Set(4),
                })
                .collect();
            e.sample(|| format!("init {:?} [{}]", init, show(&h)));
            check_history(init, false, &h, e, false)
        });
        par_long(&mut e4, 8, 2, &LONG_LENS, budget, |seq, e| {
            let h: Vec<Ev> = seq
                .iter()
                .map(|&s| match s {
                    0 => Ev::P(S / 2, 0),
                    1 => Ev::P(S / 2, 1),
                    2 => Ev::P(2 * S, 0),
                    3 => Ev::N(S),
                    4 => Ev::Er(S),
                    5 => Ev::Set(0),
                    6 => Ev::Set(2),
                    _ => Ev::Set(4),
                })
                .collect();
            check_history(init, false, &h, e, false)
        });
    }
    e4.bounds.push_str(&format!("; plus long runs: every primitive word of length <= 2 repeated to 255..257 and 511..513 events followed by one event of each kind ({} histories x 3 initial kinds)", long_count(8, 2, &LONG_LENS)));
    let grid = ratio_grid(if ctx.thorough { 32 } else { 16 }, 6);
    let mut e5 = Eng::new(
        "c11-ratio-sweeps",
        "8-sample histories whose consecutive sampling intervals alternate between d0 and d0*r (d0 in {7 ms, 0.5 s, 37 s}; pattern d0,d0,d0r,d0r,d0,d0r,d0,d0 and its inverse) for every ratio of a dense grid (2^(1/16) (thorough 2^(1/32)) steps over 2^-6..2^6 plus 1 +- 2^-k, k = 3..20); 3 command kinds; staged reference with forward-error bound",
        &format!("{} ratios x 6 sweeps x 3 kinds", grid.len()),
    );
    {
        let pat_a: [i32; 8] = [0, 0, 1, 1, 0, 1, 0, 0];
        let mut cases: Vec<(usize, f64)> = Vec::new();
        for &r in &grid {
            for k in 0..6 {
                cases.push((k, r));
            }
        }
        for init in inits {
            par_cases(&mut e5, &cases, budget, |&(k, r), e| {
                e.executions += 1;
                e.states += 1;
                e.max_depth = e.max_depth.max(8);
                let d0 = [7_000_000i64, S / 2, 37 * S][k % 3] as f64;
                let inv = k >= 3;
                let h: Vec<Ev> = (0..8).map(|i| Ev::P((d0 * if (pat_a[i] == 1) != inv { r } else { 1.0 }).round().max(1.0) as i64, i % 2)).collect();
                e.sample(|| format!("init {:?} ratio {:.5} [{}]", init, r, show(&h)));
                e.transitions += check_history(init, false, &h, e, false);
            });
        }
    }
    let mut eT = Eng::new(
        "c11-interleaved-twins",
        "two CommandPID streams (position, velocity, acceleration command) alive at once and fed different histories in lockstep (engine shared with C05): every history of 4 events over {P(1), P(-2), N, E1, FromNone} against 8 partner histories, in both update orders; every update result and get() of each must equal its solo run (state shared between instances breaks this)",
        "5^4 histories x 8 partners x 2 orders x 3 command kinds",
    );
    {
        let partners: Vec<Vec<usize>> = vec![vec![0, 0, 0, 0], vec![1, 1, 1, 1], vec![0, 1, 0, 1], vec![2, 1, 1, 0], vec![3, 0, 1, 1], vec![1, 2, 0, 0], vec![0, 4, 1, 0], vec![2, 2, 2, 2]];
        let partners = &partners;
        for kind in [1usize, 2, 3] {
            par(&mut eT, 625 * 8 * 2, 64, budget, |idx, e| {
                let idx = idx as usize;
                let (ia, ip, swap) = (idx / 16, (idx / 2) % 8, idx % 2 == 1);
                let mut da = vec![0usize; 4];
                decode(ia as u64, 5, &mut da);
                let full: Vec<crate::c05::Ev> = da.iter().map(|&i| crate::c05::SYMS[i]).collect();
                let part: Vec<crate::c05::Ev> = partners[ip].iter().map(|&i| crate::c05::SYMS[i]).collect();
                let (ha, hb) = if swap { (part, full) } else { (full, part) };
                e.executions += 1;
                e.states += 1;
                e.nontrivial += 1;
                e.transitions += crate::c05::twins(kind, &ha, &hb, e);
            });
        }
    }
    let ew = crate::c05::wiring_engine("c11-input-wirings", &[1, 2, 3], 5, budget);
    vec![e1, e2, e3, e4, e5, eT, ew]
}
