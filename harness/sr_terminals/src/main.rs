//! C09 thorough tier: the terminal-link state graph explored a second time by an independent
//! explicit-state engine (stateright BFS). A state is the observed link structure; it carries
//! a witness history (ignored by Hash/Eq) from which `next_state` rebuilds real terminals,
//! applies one real connect/disconnect and observes the result. The unique-state counts must
//! equal the hand-rolled explorer's (and the number of matchings: 2, 4, 10, 26, 76, 232, ...).
use core::cell::RefCell;
use rrtk::*;
use stateright::{Checker, Model, Property};
use std::hash::{Hash, Hasher};
use std::panic::{catch_unwind, AssertUnwindSafe};

type Term<'a> = RefCell<Terminal<'a, ()>>;

#[derive(Clone, Debug)]
struct St {
    links: Vec<Option<usize>>,
    bad: Option<String>,
    hist: Vec<usize>,
}
impl PartialEq for St {
    fn eq(&self, o: &Self) -> bool {
        self.links == o.links && self.bad.is_some() == o.bad.is_some()
    }
}
impl Eq for St {}
impl Hash for St {
    fn hash<H: Hasher>(&self, h: &mut H) {
        self.links.hash(h);
        self.bad.is_some().hash(h);
    }
}

fn own_pos(i: usize) -> f32 {
    (1u32 << (i + 1)) as f32
}
fn apply<'a>(ts: &'a [Term<'a>], n: usize, a: usize) {
    let (i, j) = (a / n, a % n);
    if i == j {
        ts[i].borrow_mut().disconnect();
    } else {
        connect(&ts[i], &ts[j]);
    }
}
fn observe(n: usize, hist: &[usize]) -> Result<Vec<Option<usize>>, String> {
    let r = catch_unwind(AssertUnwindSafe(|| {
        let ts: Vec<Term> = (0..n).map(|_| Terminal::new()).collect();
        for (i, t) in ts.iter().enumerate() {
            t.borrow_mut().set(Datum::new(Time(i as i64), State::new_raw(own_pos(i), 0.0, 0.0))).unwrap();
        }
        for &a in hist {
            apply(&ts, n, a);
        }
        let mut out = vec![None; n];
        for i in 0..n {
            let s = <Terminal<()> as Getter<State, ()>>::get(&ts[i].borrow()).unwrap().unwrap();
            if s.value.position != own_pos(i) {
                for j in 0..n {
                    if j != i && (own_pos(i) + own_pos(j)) / 2.0 == s.value.position {
                        out[i] = Some(j);
                    }
                }
                if out[i].is_none() {
                    return Err(format!("terminal {} reads {}", i, s.value.position));
                }
            }
        }
        Ok(out)
    }));
    match r {
        Ok(x) => x,
        Err(_) => Err("panic".to_string()),
    }
}

struct Links {
    n: usize,
}
impl Model for Links {
    type State = St;
    type Action = usize;
    fn init_states(&self) -> Vec<St> {
        vec![St { links: vec![None; self.n], bad: None, hist: vec![] }]
    }
    fn actions(&self, s: &St, out: &mut Vec<usize>) {
        if s.bad.is_none() {
            out.extend(0..self.n * self.n);
        }
    }
    fn next_state(&self, s: &St, a: usize) -> Option<St> {
        let mut hist = s.hist.clone();
        hist.push(a);
        Some(match observe(self.n, &hist) {
            Ok(links) => St { links, bad: None, hist },
            Err(m) => St { links: s.links.clone(), bad: Some(format!("{:?} then {}: {}", s.hist, a, m)), hist },
        })
    }
    fn properties(&self) -> Vec<Property<Self>> {
        vec![
            Property::<Self>::always("no panic / decodable reads", |_, s| s.bad.is_none()),
            Property::<Self>::always("links form a symmetric matching", |_, s| {
                (0..s.links.len()).all(|i| match s.links[i] {
                    None => true,
                    Some(j) => j != i && s.links[j] == Some(i),
                })
            }),
        ]
    }
}

fn main() {
    std::panic::set_hook(Box::new(|_| {}));
    let max_n: usize = std::env::args().nth(1).and_then(|s| s.parse().ok()).unwrap_or(6);
    for n in 2..=max_n {
        let checker = Links { n }.checker().threads(8).spawn_bfs().join();
        let mut failed = Vec::new();
        for (name, path) in checker.discoveries() {
            failed.push(format!("{}: {:?}", name, path.last_state().bad.clone().unwrap_or_else(|| format!("{:?}", path.last_state().links))));
        }
        println!(
            "{{\"n\":{},\"unique_states\":{},\"states_generated\":{},\"max_depth\":{},\"discoveries\":{:?}}}",
            n,
            checker.unique_state_count(),
            checker.state_count(),
            checker.max_depth(),
            failed
        );
    }
}
