//! C16 thorough tier: the scratch-slot cases executed with the hook OFF under Miri, which
//! monitors every execution for uninitialised reads, out-of-bounds and dangling accesses.
use core::cell::RefCell;
use rrtk::devices::*;
use rrtk::streams::math::*;
use rrtk::streams::*;
use rrtk::*;
use std::rc::Rc;

struct G(Output<f32, ()>);
impl Getter<f32, ()> for G {
    fn get(&self) -> Output<f32, ()> {
        self.0.clone()
    }
}
impl Updatable<()> for G {
    fn update(&mut self) -> NothingOrError<()> {
        Ok(())
    }
}
fn r(o: Output<f32, ()>) -> Reference<dyn Getter<f32, ()>> {
    let x: Rc<RefCell<dyn Getter<f32, ()>>> = Rc::new(RefCell::new(G(o)));
    Reference::from_rc_ref_cell(x)
}
const PRIMES: [f32; 8] = [2.0, 3.0, 5.0, 7.0, 11.0, 13.0, 17.0, 19.0];
fn nary<const N: usize>(count: &mut u64) {
    for mask in 0..(1u32 << N) {
        for err in 0..=N {
            let mk = |i: usize| -> Output<f32, ()> {
                if err > 0 && i == err - 1 {
                    Err(Error::FromNone)
                } else if mask >> i & 1 == 1 {
                    Ok(Some(Datum::new(Time(10 + i as i64), PRIMES[i])))
                } else {
                    Ok(None)
                }
            };
            let s = SumStream::new(core::array::from_fn::<_, N, _>(|i| r(mk(i))));
            let p = ProductStream::new(core::array::from_fn::<_, N, _>(|i| r(mk(i))));
            let l = Latest::new(core::array::from_fn::<_, N, _>(|i| r(mk(i))));
            let (a, b, c) = (s.get(), p.get(), l.get());
            if err == 0 {
                let pres: Vec<usize> = (0..N).filter(|&i| mask >> i & 1 == 1).collect();
                let want_s: Option<f32> = if pres.is_empty() { None } else { Some(pres.iter().map(|&i| PRIMES[i]).sum()) };
                let want_p: Option<f32> = if pres.is_empty() { None } else { Some(pres.iter().map(|&i| PRIMES[i]).product()) };
                assert_eq!(a.unwrap().map(|d| d.value), want_s, "sum arity {} mask {:#b}", N, mask);
                assert_eq!(b.unwrap().map(|d| d.value), want_p, "product arity {} mask {:#b}", N, mask);
                assert_eq!(c.unwrap().map(|d| d.time), pres.iter().map(|&i| Time(10 + i as i64)).max());
            }
            *count += 1;
        }
    }
}
fn terminals(count: &mut u64) {
    for linked in [false, true] {
        for mask in 0..4u32 {
            let a: RefCell<Terminal<()>> = Terminal::new();
            let b: RefCell<Terminal<()>> = Terminal::new();
            if linked {
                connect(&a, &b);
            }
            if mask & 1 != 0 {
                a.borrow_mut().set(Datum::new(Time(1), State::new_raw(1.0, 2.0, 3.0))).unwrap();
            }
            if mask & 2 != 0 {
                b.borrow_mut().set(Datum::new(Time(2), State::new_raw(8.0, 16.0, 32.0))).unwrap();
            }
            let s = <Terminal<()> as Getter<State, ()>>::get(&a.borrow()).unwrap();
            let d = <Terminal<()> as Getter<TerminalData, ()>>::get(&a.borrow()).unwrap();
            let own = mask & 1 != 0;
            let par = linked && mask & 2 != 0;
            assert_eq!(s.is_some(), own || par);
            assert_eq!(d.is_some(), own || par);
            *count += 1;
        }
    }
}
fn axle<const N: usize>(count: &mut u64) {
    let mut ax = Axle::<N, ()>::new();
    for i in 0..N {
        assert_eq!(<Terminal<()> as Getter<State, ()>>::get(&ax.get_terminal(i).borrow()), Ok(None));
        ax.get_terminal(i).borrow_mut().set(Datum::new(Time(i as i64), State::new_raw(i as f32, 0.0, 0.0))).unwrap();
    }
    ax.update().unwrap();
    *count += 1;
}
fn main() {
    let mut n = 0u64;
    nary::<1>(&mut n);
    nary::<2>(&mut n);
    nary::<3>(&mut n);
    nary::<4>(&mut n);
    nary::<5>(&mut n);
    nary::<6>(&mut n);
    nary::<7>(&mut n);
    nary::<8>(&mut n);
    terminals(&mut n);
    axle::<0>(&mut n);
    axle::<1>(&mut n);
    axle::<2>(&mut n);
    axle::<3>(&mut n);
    axle::<4>(&mut n);
    axle::<5>(&mut n);
    axle::<6>(&mut n);
    axle::<7>(&mut n);
    axle::<8>(&mut n);
    println!("MIRI-CASES {}", n);
}
