//! C17 (b): to_dyn! invoked from a downstream crate whose own feature set varies while rrtk
//! itself is built with `std`. For every variant the macro lists the conversion must return
//! (no unimplemented!()) and the result must alias the same object.
use rrtk::*;
use std::panic::{catch_unwind, AssertUnwindSafe};

trait Val {
    fn getv(&self) -> i32;
    fn setv(&mut self, v: i32);
}
struct Cell32(i32);
impl Val for Cell32 {
    fn getv(&self) -> i32 {
        self.0
    }
    fn setv(&mut self, v: i32) {
        self.0 = v;
    }
}

fn check(name: &str, make: impl FnOnce() -> Reference<Cell32>) {
    let r = catch_unwind(AssertUnwindSafe(|| {
        let orig = make();
        let keep = orig.clone();
        let d: Reference<dyn Val> = to_dyn!(Val, orig);
        d.borrow_mut().setv(41);
        let seen = keep.borrow().0;
        keep.borrow_mut().0 += 1;
        let seen2 = d.borrow().getv();
        let d2 = d.clone();
        d2.borrow_mut().setv(7);
        let last = keep.borrow().0;
        (seen, seen2, last)
    }));
    match r {
        Ok((41, 42, 7)) => println!("RESULT {} ok", name),
        Ok(other) => println!("RESULT {} alias-fail {:?}", name, other),
        Err(p) => {
            let msg = p.downcast_ref::<String>().cloned().or_else(|| p.downcast_ref::<&str>().map(|s| s.to_string())).unwrap_or_default();
            println!("RESULT {} panic {}", name, msg.replace('\n', " "));
        }
    }
}

fn main() {
    std::panic::set_hook(Box::new(|_| {}));
    check("Ptr", || static_reference!(Cell32, Cell32(0)));
    check("RcRefCell", || rc_ref_cell_reference(Cell32(0)));
    check("PtrRwLock", || static_rw_lock_reference!(Cell32, Cell32(0)));
    println!("FEATURES alloc={} std={}", cfg!(feature = "alloc"), cfg!(feature = "std"));
}
