//! C16 in rrtk's bare configuration (neither `std` nor `alloc`): the scratch-slot cases of the
//! n-ary streams, the terminal reads and the axle constructor, built with the poison hook
//! (`--cfg rrtk_verif`) natively, or without it under Miri. In this configuration the only
//! Reference variant is the raw pointer, so inputs live in leaked boxes owned by the harness.
//! Every case is executed twice behind differently dirtied stack memory; a result that differs
//! between the two runs, or from the reference value, depends on memory the code did not write.
//! Output: one line `BARE-CASES <n>` and one line `BARE-VIOLATION <key> :: <detail>` per failure.
use core::cell::RefCell;
use rrtk::devices::*;
use rrtk::streams::math::*;
use rrtk::streams::*;
use rrtk::*;

struct G(Output<f32, ()>);
impl Getter<f32, ()> for G {
    fn get(&self) -> Output<f32, ()> {
        self.0.clone()
    }
}
impl Updatable<()> for G {
    fn update(&mut self) -> NothingOrError<()> {
        Ok(())
    }
}
fn r(o: Output<f32, ()>, keep: &mut Vec<*mut G>) -> Reference<dyn Getter<f32, ()>> {
    let p = Box::into_raw(Box::new(G(o)));
    keep.push(p);
    unsafe { Reference::from_ptr(p as *mut dyn Getter<f32, ()>) }
}
/// fill a stretch of stack with a byte pattern (what an earlier call frame may have left behind)
#[inline(never)]
fn dirty(pattern: u8) -> u64 {
    if cfg!(miri) {
        // Miri tracks initialisation itself; dirtying the stack byte by byte would only cost hours
        return pattern as u64;
    }
    let mut buf = [0u8; 4096];
    for b in buf.iter_mut() {
        unsafe { core::ptr::write_volatile(b, pattern) };
    }
    let mut s = 0u64;
    for b in buf.iter() {
        s = s.wrapping_add(unsafe { core::ptr::read_volatile(b) } as u64);
    }
    s
}
const PRIMES: [f32; 8] = [2.0, 3.0, 5.0, 7.0, 11.0, 13.0, 17.0, 19.0];
type Flat = (u8, i64, u32);
fn flat(o: &Output<f32, ()>) -> Flat {
    match o {
        Ok(None) => (0, 0, 0),
        Ok(Some(d)) => (1, d.time.0, d.value.to_bits()),
        Err(_) => (2, 0, 0),
    }
}
fn nary<const N: usize>(count: &mut u64, viol: &mut Vec<String>) {
    for mask in 0..(1u32 << N) {
        for err in 0..=N {
            let mk = |i: usize| -> Output<f32, ()> {
                if err > 0 && i == err - 1 {
                    Err(Error::FromNone)
                } else if mask >> i & 1 == 1 {
                    Ok(Some(Datum::new(Time(10 + i as i64), PRIMES[i])))
                } else {
                    Ok(None)
                }
            };
            let mut keep = Vec::new();
            let s = SumStream::new(core::array::from_fn::<_, N, _>(|i| r(mk(i), &mut keep)));
            let p = ProductStream::new(core::array::from_fn::<_, N, _>(|i| r(mk(i), &mut keep)));
            let l = Latest::new(core::array::from_fn::<_, N, _>(|i| r(mk(i), &mut keep)));
            let mut runs: Vec<[Flat; 3]> = Vec::new();
            for pat in [0x00u8, 0xA5, 0xFF] {
                std::hint::black_box(dirty(pat));
                runs.push([flat(&s.get()), flat(&p.get()), flat(&l.get())]);
            }
            let pres: Vec<usize> = (0..N).filter(|&i| mask >> i & 1 == 1).collect();
            let first_err_before_use = err > 0;
            let tmax = pres.iter().map(|&i| 10 + i as i64).max();
            let want: [Flat; 3] = if first_err_before_use {
                // sum and product return the error; newest-of skips errored inputs
                let l_pres: Vec<usize> = pres.iter().cloned().filter(|&i| i != err - 1).collect();
                let lt = l_pres.iter().map(|&i| 10 + i as i64).max();
                [(2, 0, 0), (2, 0, 0), match lt {
                    None => (0, 0, 0),
                    Some(t) => (1, t, PRIMES[(t - 10) as usize].to_bits()),
                }]
            } else if pres.is_empty() {
                [(0, 0, 0); 3]
            } else {
                let t = tmax.unwrap();
                let mut sum = PRIMES[pres[0]];
                let mut prod = PRIMES[pres[0]];
                for &i in &pres[1..] {
                    sum += PRIMES[i];
                    prod *= PRIMES[i];
                }
                [(1, t, sum.to_bits()), (1, t, prod.to_bits()), (1, t, PRIMES[(t - 10) as usize].to_bits())]
            };
            for (k, name) in ["sum", "product", "newest-of"].iter().enumerate() {
                let got: Vec<Flat> = runs.iter().map(|x| x[k]).collect();
                if got.iter().any(|g| *g != want[k]) {
                    viol.push(format!(
                        "scratch-slot:bare:{} :: bare build (no alloc), arity {} present-mask {:#b} error-at {:?}: {} gives (tag,time,bits) {:?} behind stack patterns 00/A5/FF, reference {:?}",
                        name, N, mask, if err > 0 { Some(err - 1) } else { None }, name, got, want[k]
                    ));
                }
            }
            drop((s, p, l));
            for q in keep {
                unsafe { drop(Box::from_raw(q)) };
            }
            *count += 1;
        }
    }
}
fn terminals(count: &mut u64, viol: &mut Vec<String>) {
    for linked in [false, true] {
        for mask in 0..4u32 {
            let a: RefCell<Terminal<()>> = Terminal::new();
            let b: RefCell<Terminal<()>> = Terminal::new();
            if linked {
                connect(&a, &b);
            }
            if mask & 1 != 0 {
                a.borrow_mut().set(Datum::new(Time(1), State::new_raw(1.0, 2.0, 3.0))).unwrap();
            }
            if mask & 2 != 0 {
                b.borrow_mut().set(Datum::new(Time(2), State::new_raw(8.0, 16.0, 32.0))).unwrap();
            }
            let mut reads = Vec::new();
            for pat in [0x00u8, 0xA5, 0xFF] {
                std::hint::black_box(dirty(pat));
                let s = <Terminal<()> as Getter<State, ()>>::get(&a.borrow()).unwrap();
                reads.push(s.map(|d| (d.time.0, d.value.position.to_bits(), d.value.velocity.to_bits(), d.value.acceleration.to_bits())));
            }
            let own = mask & 1 != 0;
            let par = linked && mask & 2 != 0;
            let want = match (own, par) {
                (false, false) => None,
                (true, false) => Some((1i64, 1.0f32.to_bits(), 2.0f32.to_bits(), 3.0f32.to_bits())),
                (false, true) => Some((2, 8.0f32.to_bits(), 16.0f32.to_bits(), 32.0f32.to_bits())),
                (true, true) => Some((2, 4.5f32.to_bits(), 9.0f32.to_bits(), 17.5f32.to_bits())),
            };
            if reads.iter().any(|x| *x != want) {
                viol.push(format!("scratch-slot:bare:terminal-read :: bare build, linked={} own={} partner={}: state reads {:?}, reference {:?}", linked, own, par, reads, want));
            }
            *count += 1;
        }
    }
}
fn axle<const N: usize>(count: &mut u64, viol: &mut Vec<String>) {
    std::hint::black_box(dirty(0xA5));
    let mut ax = Axle::<N, ()>::new();
    for i in 0..N {
        let got = <Terminal<()> as Getter<State, ()>>::get(&ax.get_terminal(i).borrow());
        if got != Ok(None) {
            viol.push(format!("scratch-slot:bare:axle-new :: bare build, Axle<{}>::new(): terminal {} reads {:?} before anything was written", N, i, got));
        }
        ax.get_terminal(i).borrow_mut().set(Datum::new(Time(i as i64), State::new_raw(i as f32, 0.0, 0.0))).unwrap();
    }
    ax.update().unwrap();
    if N > 0 {
        let mean = (0..N).map(|i| i as f32).sum::<f32>() / N as f32;
        for i in 0..N {
            let got = <Terminal<()> as Getter<State, ()>>::get(&ax.get_terminal(i).borrow());
            match got {
                Ok(Some(d)) if d.value.position == mean && d.time == Time(N as i64 - 1) => {}
                other => viol.push(format!("scratch-slot:bare:axle-update :: bare build, Axle<{}> after one update: terminal {} reads {:?}, expected position {} at time {}", N, i, other, mean, N - 1)),
            }
        }
    }
    *count += 1;
}
fn main() {
    let mut n = 0u64;
    let mut v: Vec<String> = Vec::new();
    nary::<1>(&mut n, &mut v);
    nary::<2>(&mut n, &mut v);
    nary::<3>(&mut n, &mut v);
    nary::<4>(&mut n, &mut v);
    nary::<5>(&mut n, &mut v);
    nary::<6>(&mut n, &mut v);
    nary::<7>(&mut n, &mut v);
    nary::<8>(&mut n, &mut v);
    terminals(&mut n, &mut v);
    axle::<0>(&mut n, &mut v);
    axle::<1>(&mut n, &mut v);
    axle::<2>(&mut n, &mut v);
    axle::<3>(&mut n, &mut v);
    axle::<4>(&mut n, &mut v);
    axle::<5>(&mut n, &mut v);
    axle::<6>(&mut n, &mut v);
    axle::<7>(&mut n, &mut v);
    axle::<8>(&mut n, &mut v);
    for x in &v {
        println!("BARE-VIOLATION {}", x);
    }
    println!("BARE-CASES {}", n);
}
