"""Texts for MANIFEST.json."""
NOTES = ("All checks: ./check <ID> --tier quick|thorough. Exit 0 = held on everything explored (KNOWN-FINDING lines "
         "allowed), 1 = unlisted violation (VIOLATION line with replay file), 2 = machinery failure (never a verdict). "
         "Known findings live in /verif/known_findings.txt. See DESIGN.md.")
ENGINES = [
    {"name": "rrtk-mc", "path": "harness/props", "serves_properties": [],
     "kind_free_text": "hand-rolled stateless bounded-exhaustive explorer (all event sequences to depth d, "
                       "deviation-bounded long histories, weak timestamp orders, explicit-state BFS) driving the real "
                       "rrtk objects against plain-Rust reference models"},
]
NA = {}
TEXT = {
    "C09": {
        "engine": "rrtk-mc c09-link-bfs + c09-read-values",
        "technique": "explicit-state BFS over all reachable link configurations of 2..6 (thorough 8) real terminals x all connect/disconnect actions; exhaustive presence x timestamp-order enumeration for the read clause",
        "text": "Every reachable matching of n<=6 (8) terminals x every connect(i,j)/disconnect(i) is executed on real "
                "terminals (state rebuilt by witness replay) and compared with the matching model; no panic, symmetric "
                "links, exact post-conditions. Read clause: all 16 presence patterns x all weak timestamp orders x "
                "linked/unlinked. Complete for the stated bounds; link logic has no data dependence so small n is "
                "representative.",
        "note": "Trusted: rustc, the harness decoding of partners from state means (own states are distinct powers of two). "
                "Bound: n<=6 quick, n<=8 thorough; values from a fixed dyadic alphabet.",
    },
}
