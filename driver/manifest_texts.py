"""Texts for MANIFEST.json."""
NOTES = ("All checks: ./check <ID> --tier quick|thorough. Exit 0 = held on everything explored (KNOWN-FINDING lines "
         "allowed), 1 = unlisted violation (VIOLATION line with replay file), 2 = machinery failure (never a verdict). "
         "Known findings live in /verif/known_findings.txt. Every check runs its engines in the std build with debug assertions "
         "and overflow checks on (tier bounds) and again in a true release build without them (quick bounds); twelve also "
         "without dimension checking. See DESIGN.md.")
ENGINES = [
    {"name": "sr_terminals", "path": "harness/sr_terminals", "serves_properties": ["C09"],
     "kind_free_text": "stateright 0.31 explicit-state BFS whose next_state replays actions on real terminals; independent second engine for the C09 state graph"},
    {"name": "explore (shuttle)", "path": "harness/sched", "serves_properties": ["C17"],
     "kind_free_text": "shuttle 0.9.3 DfsScheduler over the unmodified src/reference.rs compiled against shuttle::sync via a std shim"},
    {"name": "lifeprobe", "path": "driver/c16_lifetime.py", "serves_properties": ["C16"],
     "kind_free_text": "generated safe probe programs type-checked with cargo check; Miri on the accepted ones (thorough)"},
    {"name": "downstream", "path": "harness/downstream", "serves_properties": ["C17", "C19"],
     "kind_free_text": "caller crate built under its own feature sets"},
    {"name": "rrtk-mc", "path": "harness/props", "serves_properties": [],
     "kind_free_text": "hand-rolled stateless bounded-exhaustive explorer (all event sequences to depth d, "
                       "deviation-bounded long histories, weak timestamp orders, explicit-state BFS) driving the real "
                       "rrtk objects against plain-Rust reference models"},
]
NA = {}
TEXT = {
    "C19": {
        "engine": "rrtk-mc c19-trace + c19-unchecked in eight builds; driver/c19_cfg.py (cross-configuration comparison; other properties' oracles per configuration)",
        "technique": "exhaustive enumeration of the configuration space (6 feature configurations + the std pair as a true release build without debug assertions) crossed with bounded-exhaustive workloads (all short event histories of every stream, grids of quantities/states/profiles, device rounds); canonical traces compared across all builds; all 49x49 ill-dimensioned unit pairs in the unchecked builds",
        "text": "The same harness sources are built against rrtk under every configuration; each build writes canonical traces "
                "of ~200k well-dimensioned cases in 14 sections (incl. degenerate clocks: repeated and backward timestamps) which must be identical across builds (f32 as values, "
                "timestamps, categories), powf-dependent sections within a stated tolerance across back ends and exact "
                "between checked/unchecked; unchecked builds must never panic or reject on any of 2401 unit pairs and 49 "
                "setter/constructor/converter units; the oracles of C02, C12, C14 (thorough: 14 properties) are re-run "
                "inside every configuration.",
        "note": "Programs = the enumerated workloads; the configuration axis itself is covered completely.",
    },
    "C16": {
        "engine": "rrtk-mc c16-nary-scratch + c16-terminal-read-scratch + c16-axle-constructor + c16-terminal-ops-scratch; driver/c16_lifetime.py (compiler probes); driver/c16_bare.py + harness/bare_c16 (bare configuration); thorough: c16_miri.py",
        "technique": "exhaustive enumeration of all absent/present patterns (2^N, N<=8, plus an error at every position), terminal presence combinations, all 12^5 (thorough 12^6) connect/disconnect/set_state sequences on 3 terminals, and axle sizes 0..8 with poisoned scratch arrays (hook rrtk_verif); bounded enumeration of a generated family of safe probe programs with rustc's borrow checker as oracle; thorough: the same cases and the accepted probes under Miri",
        "text": "Scratch-slot clause: every pattern for arities 1..8 of sum/product/newest-of, the terminal read and Axle::new "
                "are executed with the MaybeUninit arrays filled with 0x7F so that any use of an unwritten slot changes the "
                "result by 3e38 / the timestamp by 9e18; out-of-range terminal indices must panic; after every step of every terminal operation sequence each state read must be explainable by written states. Lifetime clause: 77 generated "
                "safe programs (11 accessors x drop/move/drop-with-partner x read/write, raw-pointer API probes, controls): "
                "the compiler accepting one is a violation. 24 known findings (F4: 11 accessors x {drop, move}; F6: "
                "Borrow::Ptr / BorrowMut::Ptr constructible in safe code). Plus the same scratch-slot cases in rrtk's bare configuration (--no-default-features: neither std nor alloc; raw-pointer References), each read three times behind differently dirtied stack memory, natively with the poison hook and (thorough) under Miri.",
        "note": "'No safe program' is decided for the generated family only; controls make sure a rejection is a borrow-checker "
                "rejection and an acceptance is not a vacuous probe.",
    },
    "C17": {
        "engine": "rrtk-mc c17-aliasing-seqs + c17-to_dyn-argument-forms; driver/c17_extra.py: downstream crate x 4 feature sets; harness/sched (shuttle DFS)",
        "technique": "exhaustive controlled-scheduler exploration (shuttle check_dfs, unbounded) of 2-4 thread harnesses on the real reference.rs; stateless bounded-exhaustive operation sequences (15^5 quick / 15^7 thorough x 6 variants, and one step shorter on 64- and 4096-aligned targets) against a one-cell model; configuration enumeration of the caller's feature sets for to_dyn!",
        "text": "Threads: every interleaving at every Mutex/RwLock operation and yield of 2x1, 2x2, 3x1 increments and 2x1+reader "
                "(thorough adds 2x3 complete and 3x2, 4x1, 2x2+reader up to a 2e7-schedule cap) for the four lock-backed "
                "variants: no lost update, no deadlock, no panic. Sequential: all clone/to_dyn/read/write/drop sequences on "
                "3 handle slots for all six variants against a single-cell + handle-count model incl. the drop flag, on 8-, 64- and 4096-aligned targets (a memory-fault death of the exploring process is localised by a one-at-a-time re-run and reported with the sequence). "
                "to_dyn! from a downstream crate with and without features named alloc/std. to_dyn! argument forms: 8 argument expression forms (variable, clone(), Option::take().unwrap(), Vec::pop().unwrap(), Iterator::next().unwrap(), mem::replace, a block with a side effect, a call building a fresh target) x listed variants x 3 layouts: the argument is evaluated exactly once and the result aliases the object that evaluation denotes.",
        "note": "shuttle intercepts the lock operations reference.rs performs because the file is compiled against shuttle::sync; "
                "Arc itself has no scheduling points, which is fine because the property is about the locks.",
    },
    "C01": {
        "engine": "rrtk-mc c01-grid-pairs + c01-extended-pairs + c01-unary-mixed-constants",
        "technique": "exhaustive enumeration of the finite input space: all 49x49 (and 169x169 extended) ordered unit pairs x every operator form x a 12-value f32 alphabet squared, executed on the real operators under a panic guard against exponent arithmetic",
        "text": "Depth-1 operations over a complete finite product: every ordered pair of grid units (plus an extended axis to "
                "+-60) x 8 Quantity operator forms + 3 ordering forms + 8 bare-unit forms + equality helpers x 144 value "
                "pairs; 48 mixed operator forms with Time/DimensionlessInteger on 169 units; all 49 named constants "
                "against a parser of their names; PositionDerivative/Command/piece conversions over all kinds and units. "
                "Unit part complete for the grid; values from the alphabet.",
        "note": "A pure input-space property: no state, so exhaustive enumeration of the unit grid decides the unit clause for the grid.",
    },
    "C14": {
        "engine": "rrtk-mc c14-kinematics + c14-setters + c14-conversions + c14-arithmetic",
        "technique": "exhaustive enumeration of structured input grids (state triples x intervals incl. negative, zero and 1 ns; 49 units x 3 setters; all kind pairs for command arithmetic) on the real State/Command API against closed-form references",
        "text": "State::update on 280 states x 8 intervals; setters on 49 units (accept iff right unit, else state bit-identical); "
                "Command::from(State) incl. -0; all accessors/round trips; component-wise arithmetic; mixed-kind command "
                "addition/subtraction must panic. Plus dense sweeps of the continuous parameters over a ratio grid (2^(1/16) steps, thorough 2^(1/32), plus 1 +- 2^-k).",
        "note": "Grid values only.",
    },
    "C18": {
        "engine": "rrtk-mc c18-integer-arithmetic + c18-time-to-quantity + c18-quantity-to-time + c18-unit-conversions-and-mixed-operators",
        "technique": "exhaustive enumeration: boundary-value pairs for the integer operators; every bit length x leading-mantissa pattern x low-bit class for i64 -> f32; every 64th f32 (thorough: EVERY finite f32 below 9e9, 2.7e9 values) for f32 -> i64; exact integer oracles",
        "text": "Integer operators equal i64 arithmetic on 625 boundary pairs x 19 forms; Time->Quantity within 2 ulp, monotone, "
                "round trip bound, on 63 x 2^13 x 12 (2^16 thorough) structured values covering every rounding situation "
                "of i64->f32; Quantity->Time within one rounding + 1 ns on every 64th f32 (thorough: all of them); only "
                "SECOND/DIMENSIONLESS convert; mixed operators equal converted Quantity operators. Plus dense sweeps of the continuous parameters over a ratio grid (2^(1/16) steps, thorough 2^(1/32), plus 1 +- 2^-k).",
        "note": "The thorough tier enumerates the complete f32 domain of the Quantity->Time conversion.",
    },
    "C06": {
        "engine": "rrtk-mc c06-accessor-agreement",
        "technique": "exhaustive enumeration of a structured grid of constructor inputs (88k quick, 1.2M thorough) x a boundary-focused set of query instants, executed on the real MotionProfile with a relational (accessor-vs-accessor) oracle; boundaries recovered by bisection over all of i64",
        "text": "For every grid profile the constructor accepts, all six accessors are read at ~25 instants including i64 "
                "extremes and each phase boundary -1/0/+1 ns and must describe the same instant (exact relations, no "
                "numeric tolerance); 0<=t1<=t2<=t3; end command = lowest non-zero derivative of the end state forever "
                "after completion. Plus dense sweeps of the continuous parameters over a ratio grid (2^(1/16) steps, thorough 2^(1/32), plus 1 +- 2^-k). Plus the acceptance frontier located on the code under test: for ~1000 move shapes the end position is bisected over the f32 number line down to an adjacent rejected/accepted pair of floats, and the 24 floats from the first accepted one onward are constructed and judged.",
        "note": "The property is relational, so no numeric model is needed; coverage of the input space is the grid.",
    },
    "C07": {
        "engine": "rrtk-mc c07-trapezoid",
        "technique": "exhaustive enumeration of the same constructor grid x 40+ instants per profile on the real MotionProfile against an f64 reference trapezoid built from the profile's own boundaries; metamorphic mirror oracle; acceptance clause",
        "text": "Acceleration values exact; velocity and position within a derived tolerance of the piecewise-quadratic "
                "reference at t=0, boundaries +-1 ns and 33 equally spaced instants (continuity, integral relation, "
                "velocity bound); reference end point = goal; mirrored inputs give identical boundaries and negated "
                "outputs; comfortably feasible moves are accepted. One known finding (zero displacement, F5). Plus dense sweeps of the continuous parameters over a ratio grid (2^(1/16) steps, thorough 2^(1/32), plus 1 +- 2^-k). Plus the located acceptance frontier of C06 (adjacent rejected/accepted floats and the 24 next accepted ones per shape).",
        "note": "Tolerance clause is the property's own; a wrong coefficient produces errors 1e5 x the tolerance.",
    },
    "C20": {
        "engine": "rrtk-mc c20-actuator + c20-encoder + c20-pid-wrapper",
        "technique": "stateless bounded-exhaustive exploration of round sequences (all 32^3/64^3 (32^4/64^4) sequences over the full environment alphabet, all 8^6 (8^7) over the partner options, 16/2 (32/3) deviation-bounded long sequences) on the three real wrappers with recording inner objects; differential oracle against a separately driven real CommandPID",
        "text": "Per round the connected partner terminal receives state/command/both/nothing with new, repeated or older "
                "timestamps, the inner getter is present/absent/erroring, the inner settable accepts or rejects and its "
                "update succeeds or fails; after every wrapper update the recorded inner calls must be exactly the "
                "terminal's combined read (actuator), the inner state bit-for-bit (encoder), or the value of a "
                "stand-alone CommandPID fed the same (time, state, command) sequence (PID wrapper). Plus periodic histories (every primitive word of up to 2-4 symbols (per engine, see evidence bounds) over the core alphabet repeated to 16-64 events, with at most one deviation) and long runs on both sides of 2^8 and 2^9 events. Plus twin / bystander runs: a second live object of the same kind used alternately must not change anything.",
        "note": "Two states, two commands, irregular dyadic round spacing, PID initial time later than the first data.",
    },
    "C08": {
        "engine": "rrtk-mc c08-two-terminal + c08-axle-differential + c08-tooth-lists",
        "technique": "stateless bounded-exhaustive exploration of set/update round sequences on real devices (every connection subset x every sequence of rounds over a 5-option-per-terminal alphabet, plus 8-round sequences with few non-empty rounds) against a least-squares projection reference",
        "text": "Invert, GearTrain (5 ratios, both constructors, all tooth lists of length 2..6 over 3 tooth counts), Axle<0..6> "
                "and Differential (4 trust modes): every subset of terminals wired to external terminals, every sequence of "
                "3 (4) rounds for 2-terminal and 2 (3) for 3-terminal devices; after each update the own slots must equal the "
                "projection of the pre-update reads, stamped with the newest contributing time; uninformed slots and "
                "external slots bit-identical. Plus periodic histories (every primitive word of up to 2-4 symbols (per engine, see evidence bounds) over the core alphabet repeated to 16-64 events, with at most one deviation) and long runs on both sides of 2^8 and 2^9 events. Plus dense sweeps of the continuous parameters over a ratio grid (2^(1/16) steps, thorough 2^(1/32), plus 1 +- 2^-k). Plus twin / bystander runs: a second live object of the same kind used alternately must not change anything. Plus 24 cross-kind environments: the same round sequences (depth 2 / 1) with commands present at terminal 0 / the last / all terminals, stamped far newer / older / at the round's shared time / newer than the round, written once or before every round - states and their timestamps must not depend on them.",
        "note": "Two state triples, five timing options per terminal and round (newest, tie, stale; negative and positive times).",
    },
    "C13": {
        "engine": "rrtk-mc c13-devices + c13-chains",
        "technique": "stateless bounded-exhaustive exploration of command round sequences on real devices and on every chain of 1..4 (5) devices x every sequence of issuing ends, against a newest-command-scaled-along-the-path reference",
        "text": "Same harness as C08 with commands: after each update every device terminal and connected external terminal "
                "must read a newest issued command with issuer's time and kind, value mapped by the path; differential "
                "leaves command slots bit-identical. Chains: all 4^1..4^4 (4^5) device sequences x all 2^6 (2^8) "
                "issuing-end sequences, ends and every intermediate terminal checked exactly. Plus periodic histories (every primitive word of up to 2-4 symbols (per engine, see evidence bounds) over the core alphabet repeated to 16-64 events, with at most one deviation) and long runs on both sides of 2^8 and 2^9 events. Plus dense sweeps of the continuous parameters over a ratio grid (2^(1/16) steps, thorough 2^(1/32), plus 1 +- 2^-k). Plus twin / bystander runs: a second live object of the same kind used alternately must not change anything. Plus 24 cross-kind environments: the same round sequences (depth 2 / 1) with states present at terminal 0 / the last / all terminals, stamped far newer / older / at the round's shared time / newer than the round, written once or before every round - the relayed command, its kind and timestamp must not depend on them.",
        "note": "Two commands of different kinds; chain ratios are powers of two so the product is exact.",
    },
    "C15": {
        "engine": "rrtk-mc c15-settable-following + c15-terminal-following + c15-history-adapter + c15-time-getters",
        "technique": "stateless bounded-exhaustive exploration of operation sequences (all 10^d sequences of set/fail/follow/stop/update/getter-change on two settables; all 11^d sequences of clock/set_delta/set_time/fail/get/update on every GetterFromHistory constructor) against small bookkeeping reference models",
        "text": "Every sequence of 7 (8 thorough) operations on a recording settable and on ConstantGetter, and every sequence of "
                "6 (7) operations on GetterFromHistory for each constructor form and two construction instants, is executed "
                "on fresh real objects and compared after every operation with a ten-line model: last request = last "
                "successful set; update forwards exactly the followed getter's present value; errors propagate; "
                "get = Datum(now, history(now+offset)) with the offset rule of each constructor/set_delta/set_time. The "
                "scripted history stamps its data with a different time than queried so that restamping is observable. Plus periodic histories (every primitive word of up to 2-4 symbols (per engine, see evidence bounds) over the core alphabet repeated to 16-64 events, with at most one deviation) and long runs on both sides of 2^8 and 2^9 events. Plus twin / bystander runs: a second live object of the same kind used alternately must not change anything.",
        "note": "Two values, four clock steps (incl. negative and 1e12), two deltas, two set_time targets.",
    },
    "C12": {
        "engine": "rrtk-mc c12-seqs + c12-deviations + c12-periodic + c12-ratio-sweeps + c12-interleaved-twins + c12-window-fill + c12-input-wirings",
        "technique": "stateless bounded-exhaustive exploration of event histories (all 14^d histories incl. repeated timestamps and 1 ns steps, deviation-bounded long histories) on the real EWMA and moving-average streams (f32 and Quantity variants in lockstep) against a weighted-average reference model",
        "text": "Every history to depth 5 (6) over {P(dt,v): dt in {0,1ns,0.5s,3s}} + {N,E1} x windows {1ns,0.5s,2s,1h} and "
                "smoothing {0,.25,.5,1}, plus 24/2 (64/3) long histories: no update panics; moving average equals the "
                "time-weighted mean of the window (weights >=0, sum = window, asserted in the reference); EWMA equals "
                "prev*(1-L)+new*L; convexity; first sample; absent ignored; variants agree. Plus periodic histories (every primitive word of up to 2-4 symbols (per engine, see evidence bounds) over the core alphabet repeated to 16-64 events, with at most one deviation) and long runs on both sides of 2^8 and 2^9 events. Plus dense sweeps of the continuous parameters over a ratio grid (2^(1/16) steps, thorough 2^(1/32), plus 1 +- 2^-k). Plus twin / bystander runs: a second live object of the same kind used alternately must not change anything. Plus input-wiring variants (raw pointer, dyn Getter, Arc<Mutex>, Arc<RwLock> References; followed command) whose traces must equal the default wiring's bit for bit. Plus window-fill histories: moving-average windows holding W in {2..65} (thorough ..100) samples of the default rhythm, 2W+8 events with one (thorough: two for W<=34) irregular event (N, E1, +0, +1 ns, +0.2 s, +1.3 s, +3 s) at every position, so that the window fills, the irregularity travels through it and several unevenly spaced samples leave it in one update.",
        "note": "Windows, smoothing constants, values and steps from fixed alphabets; decreasing timestamps are outside the property.",
    },
    "C10": {
        "engine": "rrtk-mc c10-seqs-exact + c10-seqs-broad + c10-deviations + c10-units + c10-periodic",
        "technique": "stateless bounded-exhaustive exploration of sample/absent/error histories (all 18^d, all 14^d broad, deviation-bounded H/k) on the five real streams against rational-style reference models; exhaustive 7x7 unit grid",
        "text": "Integral, derivative and the three to-state converters: every history to depth 5 (6) over 16 present "
                "symbols (4 intervals x 4 values) + N + E1 plus 24/2 (64/3) long histories; after each present sample the "
                "output must equal trapezoid sums / backward differences applied once or twice, absent until 2 resp. 3 "
                "samples, stamped with the newest sample, unit = input*s or input/s; to-state converters must panic "
                "exactly on ill-dimensioned present samples; shift by -1e15/+11/+1e17 ns bit-identical. Plus periodic histories (every primitive word of up to 2-4 symbols (per engine, see evidence bounds) over the core alphabet repeated to 16-64 events, with at most one deviation) and long runs on both sides of 2^8 and 2^9 events. Plus dense sweeps of the continuous parameters over a ratio grid (2^(1/16) steps, thorough 2^(1/32), plus 1 +- 2^-k). Plus twin / bystander runs: a second live object of the same kind used alternately must not change anything. Plus input-wiring variants (raw pointer, dyn Getter, Arc<Mutex>, Arc<RwLock> References; followed command) whose traces must equal the default wiring's bit for bit.",
        "note": "Values/intervals from fixed alphabets (1 us .. 1 h); non-uniform spacing and non-linear signals are in the "
                "alphabet precisely because equal spacing hides rectangle-vs-trapezoid and first-vs-second difference slips.",
    },
    "C11": {
        "engine": "rrtk-mc c11-seqs-set + c11-seqs-follow + c11-deviations + c11-periodic",
        "technique": "stateless bounded-exhaustive exploration of event histories {sample, absent, error, set(6 commands), followed-command change} on the real CommandPID against a staged reference model, all three initial command kinds",
        "text": "All 12^6 (12^7 thorough) histories without following and 18^5 (18^6) with a followed command getter, x 3 "
                "initial kinds, plus 24/2 (48/3) long histories; after every event (also after set) get() must equal the "
                "reference: PID on the commanded component with kind-specific gains, output / integral / double integral, "
                "absent for exactly 0/1/2 samples after start or reset, set(same) no-op, set(different) restarts, N "
                "resets, E reported until next sample. Bit-exact on the dyadic alphabet. Plus periodic histories (every primitive word of up to 2-4 symbols (per engine, see evidence bounds) over the core alphabet repeated to 16-64 events, with at most one deviation) and long runs on both sides of 2^8 and 2^9 events. Plus dense sweeps of the continuous parameters over a ratio grid (2^(1/16) steps, thorough 2^(1/32), plus 1 +- 2^-k). Plus twin / bystander runs: a second live object of the same kind used alternately must not change anything. Plus input-wiring variants (raw pointer, dyn Getter, Arc<Mutex>, Arc<RwLock> References; followed command) whose traces must equal the default wiring's bit for bit.",
        "note": "Two states, two intervals, six commands; gains distinct per kind so that a wrong selection shows.",
    },
    "C04": {
        "engine": "rrtk-mc c04-seqs-exact + c04-seqs-broad + c04-deviations + c04-periodic",
        "technique": "stateless bounded-exhaustive exploration of input-event histories (all 12^d histories over an exact dyadic alphabet, all 14^d over a broad alphabet, all H-event histories within k deviations) on the real PIDControllerStream against a textbook reference model, with metamorphic (shift, power-of-two scale) and differential (composition from primitive streams) oracles",
        "text": "Every history up to depth 5 (7 thorough) over {P(dt,v),N,E1,E2} x 4 gain sets is executed on a fresh real "
                "controller; after every present sample the output must equal kp*e+ki*I+kd*D of the samples since the "
                "last reset, bit-exactly on the dyadic alphabet and within a derived forward-error bound on the broad "
                "one; 24/2 (64/3) deviation-bounded long histories cover integral accumulation. Shift by -1e15/+7/+1e17 "
                "ns must be bit-identical, scaling by 2^-3/2^4 exact, and the controller composed from the crate's own "
                "difference/integral/derivative/product/sum streams must agree. Plus periodic histories (every primitive word of up to 2-4 symbols (per engine, see evidence bounds) over the core alphabet repeated to 16-64 events, with at most one deviation) and long runs on both sides of 2^8 and 2^9 events. Plus dense sweeps of the continuous parameters over a ratio grid (2^(1/16) steps, thorough 2^(1/32), plus 1 +- 2^-k). Plus twin / bystander runs: a second live object of the same kind used alternately must not change anything. Plus input-wiring variants (raw pointer, dyn Getter, Arc<Mutex>, Arc<RwLock> References; followed command) whose traces must equal the default wiring's bit for bit.",
        "note": "Gains, setpoints, values and intervals from fixed alphabets (intervals 1 us .. 1 h). The controller's memory "
                "is one previous sample plus the integral, so depth >= 3 reaches every distinct stage.",
    },
    "C02": {
        "engine": "rrtk-mc c02-nary + c02-fixed-arity",
        "technique": "exhaustive enumeration of every input-category assignment {P,N,E1,E2}^arity x every weak order of the present timestamps for all 16 combinators, executed on the real streams against rustdoc-derived reference functions",
        "text": "The combinators are stateless, so their behaviour is a function of the input categories, the relative "
                "order of timestamps and the values; the first two are enumerated completely (arities 1..5 quick, 1..8 "
                "thorough; every weak order), values are identifying primes. Checks category, payload, timestamp, error "
                "precedence, Sum2/Product2 vs n-ary, De Morgan, and purity of three consecutive reads. Plus twin / bystander runs: a second live object of the same kind used alternately must not change anything.",
        "note": "Values from a fixed alphabet of distinct primes and units; open corners accepted both ways (see assumptions).",
    },
    "C03": {
        "engine": "rrtk-mc c03-datum-operators + c03-selection-helpers + c03-stream-timestamps + c03-terminal-timestamps + c08 timestamp mode",
        "technique": "exhaustive enumeration of all ordered timestamp pairs/weak orders over an alphabet with equal, adjacent, negative and extreme i64 values for every Datum operator impl x payload type, the replace/latest helpers, every combinator, terminal reads and device updates",
        "text": "All 529 ordered pairs of a 23-value alphabet (MIN, MIN+1, +-2^32, +-3e9, +-2^31, 2^31-1, -2^31-1, +-1.5e9(+7), -2..2, 2^53(+1), MAX-1, MAX) for each of the 34 Datum operator impls (85 "
                "payload instantiations, table checked against the source), the selection helpers incl. empty cases, "
                "the C02 enumeration with the timestamp oracle only (two-input combinators on all 529 pairs), terminal reads and "
                "device updates with all weak timestamp orders, each also realised with timestamps further apart than i64::MAX. The device engines also run under the 24 cross-kind environments (states present while command timestamps are judged and vice versa).",
        "note": "A max-of-timestamps rule depends only on the order relation of its operands, which the alphabet covers "
                "completely for pairs; payload values fixed.",
    },
    "C05": {
        "engine": "rrtk-mc c05-seqs + c05-repeated-timestamps + c05-deviations + c05-freeze + c05-periodic + c05-freeze-periodic",
        "technique": "stateless bounded-exhaustive exploration of event histories on the real streams (all 5^d histories, d=8 quick / 10 thorough, plus all H-event histories within k deviations of the default stream) with differential oracles against fresh real streams",
        "text": "For each of 15 stateful stream variants every history over {P,P',N,E1,E2} up to the depth bound, and every "
                "24/2 (48/3) deviation-bounded long history, is executed on a freshly built real stream; after every "
                "event: no stale error, reset == fresh stream fed the suffix (bit equality), deleting ignored absent "
                "events changes nothing, get() pure (input poisoned between calls; lazy-get run). Freeze: all 16^d "
                "condition x input histories against the reference machine. Small-scope complete: the streams keep at "
                "most three samples of memory, so depth 8 exceeds every distinct internal stage. Plus periodic histories (every primitive word of up to 2-4 symbols (per engine, see evidence bounds) over the core alphabet repeated to 16-64 events, with at most one deviation) and long runs on both sides of 2^8 and 2^9 events. Plus twin / bystander runs: a second live object of the same kind used alternately must not change anything. Plus input-wiring variants (raw pointer, dyn Getter, Arc<Mutex>, Arc<RwLock> References; followed command) whose traces must equal the default wiring's bit for bit. Plus, for the six filters (which accept repeated timestamps), all 5^6 (5^8) histories under three more clocks (every timestamp used twice / three times, clock standing still), so that errors and resets are followed by samples carrying an earlier sample's timestamp.",
        "note": "Trusted: harness reset-policy table, scripted inputs. Values from a two-element alphabet, clock +1 s "
                "per event; numeric correctness is C04/C10/C11/C12's business, not this check's.",
    },
    "C09": {
        "engine": "rrtk-mc c09-link-bfs + c09-read-values + c09-unobserved-bursts + c09-two-pairs + c09-unobserved-sequences; thorough: harness/sr_terminals (stateright BFS cross-check)",
        "technique": "explicit-state BFS over all reachable link configurations of 2..6 (thorough 10) real terminals x all connect/disconnect actions; exhaustive presence x timestamp-order enumeration for the read clause; all periodic operation bursts (words of length <= 2 over 15 operations, 255..513 operations, thorough 2^16+-1) without intermediate reads against a link + slot model",
        "text": "Every reachable matching of n<=6 (10) terminals x every connect(i,j)/disconnect(i) is executed on real "
                "terminals (state rebuilt by witness replay) and compared with the matching model; no panic, symmetric "
                "links, exact post-conditions. Read clause: all 16 presence patterns x all weak timestamp orders x "
                "linked/unlinked; 5400 long unobserved operation bursts. Complete for the stated bounds; link logic has no data dependence so small n is "
                "representative. Plus twin / bystander runs: a second live object of the same kind used alternately must not change anything. Plus every connect/disconnect sequence (no state merging) of length <= 8/6/4/3 (thorough 10/8/6/5) on 2/3/4/5 terminals under n+1 observation modes (nothing read before the end; only terminal k read after every step), the links decoded at the end compared with the matching model - bookkeeping that reads repair or create is only visible this way.",
        "note": "Trusted: rustc, the harness decoding of partners from state means (own states are distinct powers of two). "
                "Bound: n<=6 quick, n<=10 thorough; values from a fixed dyadic alphabet.",
    },
}
