"""Texts for MANIFEST.json."""
NOTES = ("All checks: ./check <ID> --tier quick|thorough. Exit 0 = held on everything explored (KNOWN-FINDING lines "
         "allowed), 1 = unlisted violation (VIOLATION line with replay file), 2 = machinery failure (never a verdict). "
         "Known findings live in /verif/known_findings.txt. See DESIGN.md.")
ENGINES = [
    {"name": "rrtk-mc", "path": "harness/props", "serves_properties": [],
     "kind_free_text": "hand-rolled stateless bounded-exhaustive explorer (all event sequences to depth d, "
                       "deviation-bounded long histories, weak timestamp orders, explicit-state BFS) driving the real "
                       "rrtk objects against plain-Rust reference models"},
]
NA = {}
TEXT = {
    "C05": {
        "engine": "rrtk-mc c05-seqs + c05-deviations + c05-freeze",
        "technique": "stateless bounded-exhaustive exploration of event histories on the real streams (all 5^d histories, d=8 quick / 10 thorough, plus all H-event histories within k deviations of the default stream) with differential oracles against fresh real streams",
        "text": "For each of 15 stateful stream variants every history over {P,P',N,E1,E2} up to the depth bound, and every "
                "24/2 (48/3) deviation-bounded long history, is executed on a freshly built real stream; after every "
                "event: no stale error, reset == fresh stream fed the suffix (bit equality), deleting ignored absent "
                "events changes nothing, get() pure (input poisoned between calls; lazy-get run). Freeze: all 16^d "
                "condition x input histories against the reference machine. Small-scope complete: the streams keep at "
                "most three samples of memory, so depth 8 exceeds every distinct internal stage.",
        "note": "Trusted: harness reset-policy table, scripted inputs. Values from a two-element alphabet, clock +1 s "
                "per event; numeric correctness is C04/C10/C11/C12's business, not this check's.",
    },
    "C09": {
        "engine": "rrtk-mc c09-link-bfs + c09-read-values",
        "technique": "explicit-state BFS over all reachable link configurations of 2..6 (thorough 8) real terminals x all connect/disconnect actions; exhaustive presence x timestamp-order enumeration for the read clause",
        "text": "Every reachable matching of n<=6 (8) terminals x every connect(i,j)/disconnect(i) is executed on real "
                "terminals (state rebuilt by witness replay) and compared with the matching model; no panic, symmetric "
                "links, exact post-conditions. Read clause: all 16 presence patterns x all weak timestamp orders x "
                "linked/unlinked. Complete for the stated bounds; link logic has no data dependence so small n is "
                "representative.",
        "note": "Trusted: rustc, the harness decoding of partners from state means (own states are distinct powers of two). "
                "Bound: n<=6 quick, n<=8 thorough; values from a fixed dyadic alphabet.",
    },
}
