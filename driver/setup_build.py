#!/usr/bin/env python3
"""setup: pre-build every harness binary so that quick checks only pay for incremental rebuilds."""
import sys, os
sys.path.insert(0, os.path.dirname(os.path.abspath(__file__)))
import common
for cfg in common.ALL_CONFIGS:
    b, t = common.build_props(cfg)
    print("built %s in %.1fs" % (b, t))
