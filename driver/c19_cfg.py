"""C19: enumerate the six feature configurations, compare canonical traces, run the oracles of
other properties inside every configuration."""
import os, subprocess, json, struct, concurrent.futures, glob, shutil
import common
from common import Machinery, mk_engine, viol

CFGS = ["std", "std-nocheck", "libm", "libm-nocheck", "micromath", "micromath-nocheck", "std-rel", "std-rel-nocheck"]
BACKEND = {"std": "std", "std-nocheck": "std", "libm": "libm", "libm-nocheck": "libm", "micromath": "micromath",
           "micromath-nocheck": "micromath", "std-rel": "std", "std-rel-nocheck": "std"}
ORACLES_QUICK = ["C12", "C14", "C02"]
ORACLES_THOROUGH = ["C01", "C02", "C04", "C05", "C06", "C08", "C10", "C11", "C12", "C13", "C14", "C15", "C18", "C20"]


def floats_of(line):
    out = []
    for tok in line.split():
        if tok.startswith("f:"):
            out.append(struct.unpack(">f", bytes.fromhex(tok[2:]))[0])
    return out


def strip_floats(line):
    return " ".join("f" if t.startswith("f:") else t for t in line.split())


def run(pid, tier):
    tdir = os.path.join(common.TARGET, "c19traces")
    if os.path.exists(tdir):
        shutil.rmtree(tdir)
    os.makedirs(tdir)
    with concurrent.futures.ThreadPoolExecutor(max_workers=8) as ex:
        bins = dict(zip(CFGS, ex.map(lambda c: common.build_props(c)[0], CFGS)))
    engines = []

    def trace(c):
        return c, common.run_engine(bins[c], "C19", tier, {"VERIF_C19_DIR": tdir}, tag="-" + c)

    with concurrent.futures.ThreadPoolExecutor(max_workers=6) as ex:
        for c, res in ex.map(trace, CFGS):
            if res.get("signal"):
                raise Machinery("C19 engine died with a signal in configuration %s" % c)
            engines.extend(res["engines"])
    # ---- compare sections across configurations
    cmp_eng = mk_engine("c19-cross-configuration",
                        "for every trace section the eight builds {std, alloc+libm, alloc+micromath} x {dim_check_release, no "
                        "checking} plus the std pair again as a true release build (debug assertions and overflow checks compiled out) must produce identical canonical traces (f32 compared as values, identical timestamps and "
                        "outcome categories); sections that depend on the power function are compared exactly between the "
                        "checked and unchecked build of the same back end, and across back ends structurally plus numerically "
                        "within 1e-5 of the values' scale (libm vs std); micromath's coarse powf is compared structurally only and judged numerically by the build's own C12 oracle; non-trivial = pair of "
                        "configurations that differ in back end or checking",
                        "sections x 7 comparisons against the std build")
    sections = sorted(set(os.path.basename(p).split(".", 1)[1][:-6] for p in glob.glob(os.path.join(tdir, "std.*.trace"))))
    if not sections:
        raise Machinery("no trace sections were written")
    data = {}
    for c in CFGS:
        for s in sections:
            p = os.path.join(tdir, "%s.%s.trace" % (c, s))
            if not os.path.exists(p):
                raise Machinery("configuration %s did not write section %s" % (c, s))
            data[(c, s)] = open(p).read().split("\n")
    for s in sections:
        powf = s.startswith("powf_")
        ref = data[("std", s)]
        for c in CFGS[1:]:
            cmp_eng["executions"] += 1
            cmp_eng["states"] += 1
            cmp_eng["transitions"] += len(ref)
            cmp_eng["distinct_nontrivial"] += 1
            cmp_eng["oracle_checks"] += len(ref)
            other = data[(c, s)]
            if len(other) != len(ref):
                cmp_eng["violations"].append(viol("cross-config:%s:case-count" % s, "std has %d cases, %s has %d" % (len(ref), c, len(other))))
                continue
            exact = (not powf) or BACKEND[c] == "std"
            base = ref
            if powf and BACKEND[c] != "std" and c.endswith("-nocheck"):
                # checked vs unchecked of the same back end must agree exactly
                base = data[(c[:-8], s)]
                exact = True
            for i, (a, b) in enumerate(zip(base, other)):
                if a == b:
                    continue
                if exact:
                    cmp_eng["violations"].append(viol(
                        "cross-config:%s" % s,
                        "section %s case %d differs between %s and %s:\n   %s\n   %s" % (
                            s, i, "std" if base is ref else c[:-8], c, a[:700], b[:700])))
                    break
                # powf sections across back ends: same structure, values within tolerance
                fa, fb = floats_of(a), floats_of(b)
                scale = max([abs(x) for x in fa + fb if x == x and abs(x) != float("inf")] + [1e-30])
                bad = strip_floats(a) != strip_floats(b) or len(fa) != len(fb)
                if BACKEND[c] == "libm":
                    # libm's powf agrees with std's to the last ulps; micromath's is a coarse approximation whose
                    # accuracy is that crate's business: its values are only judged by the build's own oracle (C12)
                    bad = bad or any(not (x == y or (x != x and y != y) or abs(x - y) <= 1e-5 * scale) for x, y in zip(fa, fb))
                if bad:
                    cmp_eng["violations"].append(viol(
                        "cross-config:%s:beyond-powf-tolerance" % s,
                        "section %s case %d: std vs %s differ by more than the last digits of the power function:\n   %s\n   %s" % (s, i, c, a[:700], b[:700])))
                    break
        cmp_eng["extra"]["cases:" + s] = len(ref)
    cmp_eng["distinct_outcomes"] = len(sections)
    cmp_eng["samples"] = ["section %s: %s" % (s, data[("std", s)][len(data[("std", s)]) // 2][:200]) for s in sections[:3]]
    engines.append(cmp_eng)
    # ---- the other properties' oracles inside every non-default configuration
    ids = ORACLES_THOROUGH if tier == "thorough" else ORACLES_QUICK
    jobs = [(c, i) for c in CFGS[1:] for i in ids]

    def oracle(job):
        c, i = job
        return job, common.run_engine(bins[c], i, "quick", tag="-%s-%s" % (c, i))

    with concurrent.futures.ThreadPoolExecutor(max_workers=4) as ex:
        for (c, i), res in ex.map(oracle, jobs):
            if res.get("signal"):
                raise Machinery("engine %s died in configuration %s" % (i, c))
            for e in res["engines"]:
                e["name"] = "%s[%s]" % (e["name"], c)
                e["rule"] = "(oracle of %s run inside configuration %s) %s" % (i, c, e["rule"][:300])
                e["samples"] = e["samples"][:1]
                for v in e["violations"]:
                    v["key"] = "config[%s]:%s" % (c, v["key"])
                engines.append(e)
    return engines
