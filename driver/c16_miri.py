"""C16 thorough tier: the scratch-slot cases with the hook off under Miri."""
import os, subprocess, re
import common
from common import Machinery, mk_engine, viol


def run():
    src = os.path.join(common.HARNESS, "miri_c16")
    e = common.env_base()
    e.pop("RUSTFLAGS", None)
    e["MIRIFLAGS"] = "-Zmiri-disable-isolation"
    e["CARGO_TARGET_DIR"] = os.path.join(common.TARGET, "miri_c16")
    try:
        p = subprocess.run(["cargo", "+nightly", "miri", "run", "--offline"], cwd=src, env=e, stdout=subprocess.PIPE,
                           stderr=subprocess.PIPE, text=True, timeout=2400)
    except subprocess.TimeoutExpired:
        raise Machinery("miri run timed out")
    eng = mk_engine("c16-miri-scratch",
                    "n-ary sum/product/newest-of for arities 1..8 x all 2^N absent/present patterns x (no error + an error at "
                    "each position), terminal reads for the four own/partner presence combinations x linked/unlinked, "
                    "Axle::<0..8>::new() with a read and a write of every terminal and an update, all executed with the hook "
                    "OFF under Miri, which monitors each execution for uninitialised reads, out-of-bounds and dangling accesses",
                    "about 4600 executions")
    m = re.search(r"MIRI-CASES (\d+)", p.stdout)
    ub = "Undefined Behavior" in p.stderr
    if ub:
        first = p.stderr[p.stderr.index("Undefined Behavior"):][:1500]
        eng["violations"].append(viol("scratch-slot:miri-undefined-behaviour", first))
        eng["executions"] = eng["states"] = eng["transitions"] = 1
    elif p.returncode != 0 or not m:
        if "panicked" in p.stderr:
            eng["violations"].append(viol("scratch-slot:miri-run-wrong-result", p.stderr[-1500:]))
            eng["executions"] = eng["states"] = eng["transitions"] = 1
        else:
            raise Machinery("miri run failed:\n" + p.stderr[-3000:])
    else:
        n = int(m.group(1))
        eng["executions"] = eng["states"] = n
        eng["transitions"] = 3 * n
        eng["distinct_nontrivial"] = n
        eng["oracle_checks"] = n
        eng["distinct_outcomes"] = 1
    eng["samples"] = ["SumStream<3> with pattern present/absent/present under Miri (hook off)"]
    return eng
