"""Shared driver logic: build, run engines, triage violations against known_findings.txt,
write evidence."""
import os, sys, json, subprocess, time, hashlib, re, shutil

VERIF = os.path.dirname(os.path.dirname(os.path.abspath(__file__)))
REPO = "/repo"
HARNESS = os.path.join(VERIF, "harness")
TARGET = os.path.join(VERIF, "target")
EVID = os.path.join(VERIF, "evidence")
REPLAYS = os.path.join(VERIF, "replays")
KNOWN = os.path.join(VERIF, "known_findings.txt")

# wall caps (seconds) for one engine binary invocation
CAP = {"quick": 300, "thorough": 3000}


class Machinery(Exception):
    pass


def env_base():
    e = dict(os.environ)
    e["CARGO_NET_OFFLINE"] = "true"
    e["RUSTFLAGS"] = "--cfg rrtk_verif"
    e.pop("RUST_BACKTRACE", None)
    e["RUST_BACKTRACE"] = "0"
    return e


CONFIGS = {
    # name: (cargo features of the props crate); the default cargo profile is the harness' "release"
    # (optimised, debug assertions and overflow checks ON)
    "std": "std,dimcheck",
    "std-nocheck": "std",
    "libm": "alloc,libm,dimcheck",
    "libm-nocheck": "alloc,libm",
    "micromath": "alloc,micromath,dimcheck",
    "micromath-nocheck": "alloc,micromath",
    # the same with debug assertions and overflow checks compiled OUT (profile "relna"): what a user's
    # `cargo build --release` produces; debug_assert! and cfg(debug_assertions) code is inactive
    "std-rel": "std,dimcheck",
    "std-rel-nocheck": "std",
}
PROFILE = {"std-rel": "relna", "std-rel-nocheck": "relna"}
ALL_CONFIGS = list(CONFIGS)


def build_props(config="std"):
    """Build the rrtk-mc binary for one feature configuration. Returns the binary path."""
    feats = CONFIGS[config]
    tdir = os.path.join(TARGET, config)
    prof = PROFILE.get(config, "release")
    cmd = ["cargo", "build", "--profile", prof, "--offline", "-p", "props", "--features", feats]
    e = env_base()
    e["CARGO_TARGET_DIR"] = tdir
    t0 = time.time()
    p = subprocess.run(cmd, cwd=HARNESS, env=e, stdout=subprocess.PIPE, stderr=subprocess.STDOUT, text=True)
    if p.returncode != 0:
        raise Machinery("harness build failed (config %s):\n%s" % (config, p.stdout[-4000:]))
    return os.path.join(tdir, prof, "rrtk-mc"), time.time() - t0


def build_many(configs):
    """build several configurations concurrently (separate target directories); errors surface as Machinery"""
    import concurrent.futures
    with concurrent.futures.ThreadPoolExecutor(max_workers=len(configs)) as ex:
        return dict(zip(configs, [r[0] for r in ex.map(build_props, configs)]))


def run_engine(binary, pid, tier, extra_env=None, tag=""):
    out = os.path.join(TARGET, "out-%s-%s%s.json" % (pid, tier, tag))
    if os.path.exists(out):
        os.remove(out)
    e = env_base()
    if extra_env:
        e.update(extra_env)
    try:
        p = subprocess.run([binary, pid, tier, out], env=e, stdout=subprocess.PIPE, stderr=subprocess.PIPE,
                           text=True, timeout=CAP[tier])
    except subprocess.TimeoutExpired:
        raise Machinery("engine timed out after %d s" % CAP[tier])
    if p.returncode != 0 or not os.path.exists(out):
        if p.returncode < 0:
            # death by signal: reported to the caller, C16 treats it as a verdict
            return {"signal": -p.returncode, "stderr": p.stderr[-3000:], "engines": []}
        raise Machinery("engine exited with %d:\n%s" % (p.returncode, p.stderr[-3000:]))
    with open(out) as f:
        res = json.load(f)
    res["stderr"] = p.stderr[-6000:]
    return res


def load_known():
    known, fixed = {}, []
    if os.path.exists(KNOWN):
        for line in open(KNOWN):
            line = line.strip()
            if not line or line.startswith("#"):
                continue
            m = re.match(r"known:\s+property=(\S+)\s+key=(\S+)\s*(.*)", line)
            if m:
                known.setdefault(m.group(1), {})[m.group(2)] = m.group(3)
                continue
            if line.startswith("fixed:"):
                fixed.append(line)
    return known, fixed


def mk_engine(name, rule, bounds="", **kw):
    d = {"name": name, "rule": rule, "bounds": bounds, "states": 0, "transitions": 0, "executions": 0,
         "distinct_nontrivial": 0, "oracle_checks": 0, "max_depth": 0, "distinct_outcomes": 0,
         "distinct_outcomes_capped": False, "caps_hit": [], "exhaustive": True, "samples": [], "notes": [],
         "extra": {}, "violations": []}
    d.update(kw)
    return d


def viol(key, detail, count=1, size=0):
    return {"key": key, "count": count, "size": size, "detail": detail}


def finish(pid, tier, engines, t0, level, assumptions, seed, extra_cov=None):
    """Triage violations, write evidence and replays, print verdict lines. Returns exit code."""
    known, fixed = load_known()
    kn = known.get(pid, {})
    os.makedirs(EVID, exist_ok=True)
    os.makedirs(REPLAYS, exist_ok=True)
    if not engines:
        raise Machinery("no engine produced a result")
    unlisted, listed = [], []
    for e in engines:
        for v in e.get("violations", []):
            (listed if v["key"] in kn else unlisted).append((e["name"], v))
    for name, v in listed:
        print("KNOWN-FINDING: property=%s %s (%s; %d occurrence(s) in engine %s)" % (
            pid, v["key"], kn[v["key"]], v["count"], name))
    rc = 0
    seen_keys = set()
    for name, v in unlisted:
        if v["key"] in seen_keys:
            continue
        seen_keys.add(v["key"])
        h = hashlib.sha1(v["key"].encode()).hexdigest()[:10]
        path = os.path.join(REPLAYS, "%s-%s.json" % (pid, h))
        with open(path, "w") as f:
            json.dump({"property": pid, "tier": tier, "engine": name, "key": v["key"], "count": v["count"],
                       "witness": v["detail"],
                       "how_to_replay": "./check %s --tier %s --replay %s" % (pid, tier, path)}, f, indent=1)
        print("VIOLATION property=%s replay=%s" % (pid, path))
        print("  key=%s engine=%s count=%d\n  witness: %s" % (v["key"], name, v["count"], v["detail"][:1500]))
        rc = 1
    cov = {
        "states": sum(e["states"] for e in engines),
        "transitions": sum(e["transitions"] for e in engines),
        "traces_validated_against_impl": sum(e["executions"] for e in engines),
        "evaluations": sum(e["executions"] for e in engines),
        "distinct_nontrivial": sum(e["distinct_nontrivial"] for e in engines),
        "oracle_checks": sum(e.get("oracle_checks", 0) for e in engines),
        "distinct_outcomes": sum(e["distinct_outcomes"] for e in engines),
        "max_depth": max(e["max_depth"] for e in engines),
        "rule": " || ".join("[%s] %s (bounds: %s)" % (e["name"], e["rule"], e.get("bounds", "")) for e in engines),
        "samples": [s for e in engines for s in e["samples"][:2]][:12] or ["(no sample recorded)"],
        "exhaustive": all(e["exhaustive"] for e in engines),
        "caps_hit": [c for e in engines for c in e["caps_hit"]],
        "engines": engines,
        "known_findings_reported": [v["key"] for _, v in listed],
        "explanation": "bounded-exhaustive exploration of the real rrtk code; every enumerated trace is executed "
                       "against the implementation, so traces_validated_against_impl equals the executions",
    }
    if extra_cov:
        cov.update(extra_cov)
    ev = {
        "property_id": pid,
        "tier": tier,
        "seed": seed,
        "level": level,
        "coverage": cov,
        "assumptions": assumptions,
        "wall_s": round(time.time() - t0, 3),
        "violations": len(set(v["key"] for _, v in unlisted)),
    }
    with open(os.path.join(EVID, "%s.json" % pid), "w") as f:
        json.dump(ev, f, indent=1)
    print("%s property=%s tier=%s states=%d transitions=%d executions=%d nontrivial=%d outcomes=%d exhaustive=%s wall=%.1fs" % (
        "OK" if rc == 0 else "FAIL", pid, tier, cov["states"], cov["transitions"], cov["evaluations"],
        cov["distinct_nontrivial"], cov["distinct_outcomes"], cov["exhaustive"], ev["wall_s"]))
    return rc


def run_check(pid, tier, replay=None):
    import props_table
    t0 = time.time()
    seed = int(os.environ.get("VERIF_SEED", "0") or 0)
    if pid not in props_table.TABLE:
        raise Machinery("unknown property id")
    spec = props_table.TABLE[pid]
    want_key = None
    if replay:
        with open(replay) as f:
            rp = json.load(f)
        want_key = rp["key"]
        tier = rp.get("tier", tier)
    engines = spec["run"](pid, tier)
    if want_key is not None:
        hit = [v for e in engines for v in e["violations"] if v["key"] == want_key]
        if hit:
            print("REPLAY reproduced key=%s: %s" % (want_key, hit[0]["detail"][:1500]))
            print("VIOLATION property=%s replay=%s" % (pid, replay))
            return 1
        print("REPLAY key=%s no longer occurs" % want_key)
        return 0
    return finish(pid, tier, engines, t0, spec["level"], spec["assumptions"], seed)
