"""C16 in rrtk's bare configuration (no std, no alloc): scratch-slot cases natively with the poison
hook (both tiers) and, thorough tier, with the hook off under Miri."""
import os, subprocess, re
import common
from common import Machinery, mk_engine, viol

RULE = ("rrtk built with --no-default-features (neither std nor alloc; raw-pointer References to inputs owned by the harness): "
        "n-ary sum/product/newest-of for arities 1..8 x all 2^N absent/present patterns x (no error + an error at each position), "
        "each read three times behind differently dirtied stack memory (00/A5/FF) and compared with the reference value; "
        "terminal state reads for the four own/partner presence combinations x linked/unlinked; Axle::<0..8>::new(), a read and "
        "a write of every terminal and an update")


def _parse(p, eng, what):
    m = re.search(r"BARE-CASES (\d+)", p.stdout)
    vs = [l[len("BARE-VIOLATION "):] for l in p.stdout.splitlines() if l.startswith("BARE-VIOLATION ")]
    if p.returncode != 0 or not m:
        if p.returncode < 0:
            eng["violations"].append(viol("scratch-slot:bare:process-died-with-signal-%d" % -p.returncode,
                                          "the bare-configuration sweep (%s) was killed by signal %d; stderr tail: %s" % (what, -p.returncode, p.stderr[-800:])))
            eng["executions"] = eng["states"] = eng["transitions"] = 1
            return
        if "panicked" in p.stderr:
            eng["violations"].append(viol("scratch-slot:bare:panic", "the bare-configuration sweep (%s) panicked: %s" % (what, p.stderr[-1500:])))
            eng["executions"] = eng["states"] = eng["transitions"] = 1
            return
        raise Machinery("bare-configuration sweep (%s) failed:\n%s" % (what, p.stderr[-3000:]))
    n = int(m.group(1))
    eng["executions"] = eng["states"] = n
    eng["transitions"] = 3 * n
    eng["distinct_nontrivial"] = n
    eng["oracle_checks"] = 3 * n
    eng["distinct_outcomes"] = n
    by = {}
    for v in vs:
        key, _, detail = v.partition(" :: ")
        by.setdefault(key, []).append(detail)
    for key, ds in by.items():
        eng["violations"].append(viol(key, ds[0], count=len(ds)))


def run(tier):
    src = os.path.join(common.HARNESS, "bare_c16")
    e = common.env_base()
    e["CARGO_TARGET_DIR"] = os.path.join(common.TARGET, "bare_c16")
    b = subprocess.run(["cargo", "build", "--release", "--offline"], cwd=src, env=e, stdout=subprocess.PIPE, stderr=subprocess.STDOUT, text=True)
    if b.returncode != 0:
        raise Machinery("bare-configuration harness build failed:\n" + b.stdout[-3000:])
    try:
        p = subprocess.run([os.path.join(e["CARGO_TARGET_DIR"], "release", "bare_c16")], env=e, stdout=subprocess.PIPE, stderr=subprocess.PIPE, text=True, timeout=300)
    except subprocess.TimeoutExpired:
        raise Machinery("bare-configuration sweep timed out")
    eng = mk_engine("c16-bare-scratch", RULE + "; poison hook on (unwritten scratch slots hold 0x7F bytes)", "4113 cases x 3 stack patterns")
    _parse(p, eng, "native, hook on")
    eng["samples"] = ["bare build: SumStream<3> with pattern present/absent/present read behind stack patterns 00/A5/FF"]
    out = [eng]
    if tier == "thorough":
        e2 = common.env_base()
        e2.pop("RUSTFLAGS", None)
        e2["MIRIFLAGS"] = "-Zmiri-disable-isolation"
        e2["CARGO_TARGET_DIR"] = os.path.join(common.TARGET, "bare_c16_miri")
        try:
            p = subprocess.run(["cargo", "+nightly", "miri", "run", "--offline"], cwd=src, env=e2, stdout=subprocess.PIPE, stderr=subprocess.PIPE, text=True, timeout=2400)
        except subprocess.TimeoutExpired:
            raise Machinery("bare-configuration miri run timed out")
        em = mk_engine("c16-bare-miri-scratch", RULE + "; hook OFF, executed under Miri, which monitors each execution for uninitialised reads, out-of-bounds and dangling accesses", "4113 cases x 3 stack patterns")
        if "Undefined Behavior" in p.stderr:
            first = p.stderr[p.stderr.index("Undefined Behavior"):][:1500]
            em["violations"].append(viol("scratch-slot:bare:miri-undefined-behaviour", first))
            em["executions"] = em["states"] = em["transitions"] = 1
        else:
            _parse(p, em, "miri, hook off")
        em["samples"] = ["bare build under Miri (hook off): ProductStream<4> with two inputs present"]
        out.append(em)
    return out
