#!/usr/bin/env python3
"""Regenerates /verif/MANIFEST.json from the property table (single source of truth)."""
import json, os, sys
sys.path.insert(0, os.path.dirname(os.path.abspath(__file__)))
import props_table, manifest_texts

VERIF = os.path.dirname(os.path.dirname(os.path.abspath(__file__)))
ids = [json.loads(l)["id"] for l in open(os.path.join(VERIF, "properties.jsonl"))]
checks, na = [], []
for pid in ids:
    if pid in props_table.TABLE and pid in manifest_texts.TEXT:
        t = manifest_texts.TEXT[pid]
        checks.append({
            "property_id": pid,
            "quick_cmd": "./check %s --tier quick" % pid,
            "thorough_cmd": "./check %s --tier thorough" % pid,
            "evidence_file": "/verif/evidence/%s.json" % pid,
            "replay_cmd_template": "./check %s --replay {path}" % pid,
            "engine": t["engine"],
            "level_claimed": {"category": props_table.TABLE[pid]["level"], "text": t["text"],
                              "design_ref": "DESIGN.md §5 %s" % pid},
            "level_note": t["note"],
            "technique": t["technique"],
        })
    else:
        na.append({"property_id": pid, "reason": manifest_texts.NA.get(pid, "engine not built yet (work in progress in this session); no claim is made")})
m = {
    "version": 1,
    "setup_cmd": "./setup.sh",
    "hooks": {
        "guard": "rrtk_verif",
        "enable": "RUSTFLAGS=\"--cfg rrtk_verif\" (set by ./check for every harness build; path dependency on /repo)",
        "baseline_off_cmd": "cd /repo && cargo test --workspace --no-fail-fast --offline",
        "source_commits": ["da167d7"],
        "add_only": True,
    },
    "engines": manifest_texts.ENGINES,
    "checks": checks,
    "not_applicable": na,
    "notes": manifest_texts.NOTES,
}
json.dump(m, open(os.path.join(VERIF, "MANIFEST.json"), "w"), indent=1)
print("MANIFEST.json: %d checks, %d not_applicable" % (len(checks), len(na)))
