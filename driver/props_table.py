"""Per-property wiring: which engines run, the claimed level and the assumptions."""
import common
from common import Machinery

COMMON_ASSUME = [
    "rustc/cargo 1.95 and the harness build profile (opt-level 2, debug-assertions and overflow-checks on) "
    "compile /repo's working tree faithfully; features std,devices,dim_check_release unless stated",
    "the scripted getters/time getters/settables of the harness are the only environment the objects see "
    "(the crate reads no clock, uses no randomness and iterates no hash map)",
    "values outside the enumerated finite alphabets are not exercised",
]


def default_run(pid, tier):
    binary, _ = common.build_props("std")
    res = common.run_engine(binary, pid, tier)
    if res.get("signal"):
        raise Machinery("engine died with signal %d\n%s" % (res["signal"], res.get("stderr", "")))
    return res["engines"]


def spec(level, extra_assume=None, run=default_run):
    return {"level": level, "assumptions": COMMON_ASSUME + (extra_assume or []), "run": run}


TABLE = {
    "C05": spec("model_checking", [
        "the per-stream reset policy table (which of absent/error is a reset, which streams ignore absent samples) is "
        "transcribed from the crate's documentation and property statement",
        "behaviour of freeze after an erroring or absent condition until the next false condition is left open"]),
    "C09": spec("model_checking", [
        "link structure is observed through the public getters only (own states are distinct powers of two so "
        "a mean identifies the partner exactly)"]),
}
