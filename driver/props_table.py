"""Per-property wiring: which engines run, the claimed level and the assumptions."""
import common
from common import Machinery

COMMON_ASSUME = [
    "rustc/cargo 1.95 and the harness build profile (opt-level 2, debug-assertions and overflow-checks on) "
    "compile /repo's working tree faithfully; features std,devices,dim_check_release unless stated",
    "the scripted getters/time getters/settables of the harness are the only environment the objects see "
    "(the crate reads no clock, uses no randomness and iterates no hash map)",
    "values outside the enumerated finite alphabets are not exercised",
]


CONFIG_NOTE = {
    "std-nocheck": "rrtk built WITHOUT dimension checking",
    "std-rel": "true release build: debug assertions and overflow checks compiled out, dimension checking on (dim_check_release)",
    "std-rel-nocheck": "true release build without dimension checking",
    "libm": "rrtk built as no_std with alloc and libm (no std)",
}


def config_run(pid, config, engines):
    """the same engines (quick bounds) in another build configuration; same violation keys: the
    property does not depend on the configuration, so neither does the verdict"""
    binary, _ = common.build_props(config)
    res = common.run_engine(binary, pid, "quick", tag="-" + config)
    if res.get("signal"):
        raise Machinery("engine died with signal %d in configuration %s\n%s" % (res["signal"], config, res.get("stderr", "")[-1500:]))
    for e in res["engines"]:
        e["name"] += "[%s]" % config
        e["rule"] = "(same engine, quick bounds, %s) %s" % (CONFIG_NOTE[config], e["rule"][:200])
        e["samples"] = e["samples"][:1]
        engines.append(e)
    return engines


def default_run(pid, tier):
    """the std build with debug assertions on, then the true release build (assertions off)"""
    common.build_many(["std", "std-rel", "std-nocheck"])
    binary, _ = common.build_props("std")
    res = common.run_engine(binary, pid, tier)
    if res.get("signal"):
        raise Machinery("engine died with signal %d\n%s" % (res["signal"], res.get("stderr", "")))
    return config_run(pid, "std-rel", res["engines"])


def c16_run(pid, tier):
    import c16_lifetime
    common.build_many(["std", "std-rel"])
    engines = []
    for config in ("std", "std-rel"):
        binary, _ = common.build_props(config)
        res = common.run_engine(binary, pid, tier if config == "std" else "quick", tag="" if config == "std" else "-" + config)
        if res.get("signal"):
            # a memory fault under safe API use *is* this property's failure
            e = common.mk_engine("c16-scratch-sweep", "scratch-slot sweep (process died)", "")
            e["executions"] = e["states"] = e["transitions"] = 1
            e["violations"].append(common.viol("scratch-slot:process-died-with-signal-%d" % res["signal"],
                                               "the sweep process (build %s) was killed by signal %d; stderr tail: %s" % (config, res["signal"], res.get("stderr", "")[-800:])))
            engines.append(e)
            continue
        for e in res["engines"]:
            if config != "std":
                e["name"] += "[%s]" % config
                e["rule"] = "(same engine, quick bounds, %s) %s" % (CONFIG_NOTE[config], e["rule"][:200])
                e["samples"] = e["samples"][:1]
            engines.append(e)
    engines.extend(c16_lifetime.run(tier))
    import c16_bare
    engines.extend(c16_bare.run(tier))
    if tier == "thorough":
        import c16_miri
        engines.append(c16_miri.run())
    return engines


def c17_engine(binary, pid, tier, tag=""):
    """Run the aliasing engine; if the process is killed by a memory-fault signal, localise the
    operation sequence in a one-at-a-time re-run and report it as a violation (a use-after-free of
    the shared target is exactly what the liveness clause forbids). A crash that the isolating run
    does not reproduce is a machinery failure, not a verdict."""
    import re
    res = common.run_engine(binary, pid, tier, tag=tag)
    if not res.get("signal"):
        return res["engines"]
    sig = res["signal"]
    if sig not in (4, 6, 7, 11):
        raise Machinery("aliasing engine killed by signal %d%s: %s" % (sig, tag, res.get("stderr", "")[-1500:]))
    iso = common.run_engine(binary, pid, tier, extra_env={"VERIF_ISOLATE": "1", "VERIF_THREADS": "1"}, tag=tag + "-isolate")
    if not iso.get("signal"):
        raise Machinery("aliasing engine died with signal %d%s but the one-at-a-time re-run completed: %s" % (
            sig, tag, res.get("stderr", "")[-1500:]))
    lines = [l for l in iso.get("stderr", "").splitlines() if l.startswith("ISOLATE ")]
    if not lines:
        raise Machinery("isolating run died with signal %d before announcing a sequence" % iso["signal"])
    last = lines[-1][len("ISOLATE "):]
    m = re.match(r"(\w+) (\w+) \[(.*)\]", last)
    variant = m.group(1) if m else "unknown"
    e = common.mk_engine("c17-aliasing-seqs",
                         "aliasing sequences (the exploring process was killed by a signal; sequence localised by a one-at-a-time re-run)", "")
    e["executions"] = e["states"] = e["transitions"] = 1
    e["violations"].append(common.viol(
        "reference:%s:crash" % variant,
        "the process executing the aliasing sequences was killed by signal %d; one-at-a-time re-run: killed by signal %d during "
        "variant/target/sequence %s -- a memory fault while only clone / to_dyn! / borrow / borrow_mut / drop of handles to one live "
        "target are performed (stderr tail: %s)" % (sig, iso["signal"], last, "\n".join(
            l for l in iso.get("stderr", "").splitlines() if not l.startswith("ISOLATE"))[-600:]), size=last.count("(")))
    return [e]


def c17_run(pid, tier):
    import c17_extra
    common.build_many(["std", "std-rel", "libm"])
    binary, _ = common.build_props("std")
    engines = c17_engine(binary, pid, tier)
    # true release build (debug assertions off: std's own precondition checks are inactive, so a
    # miscounted Rc/Arc shows up in the drop-flag oracle instead of an abort)
    binary, _ = common.build_props("std-rel")
    for e in c17_engine(binary, pid, "quick", tag="-std-rel"):
        e["name"] += "[std-rel]"
        e["rule"] = "(same engine, quick bounds, %s) %s" % (CONFIG_NOTE["std-rel"], e["rule"][:200])
        e["samples"] = e["samples"][:1]
        engines.append(e)
    # the alloc-without-std build has its own to_dyn! definition: run the aliasing engine there too
    binary, _ = common.build_props("libm")
    res = {"engines": c17_engine(binary, pid, "quick", tag="-alloc-only")}
    for e in res["engines"]:
        e["name"] += "[alloc-only]"
        e["rule"] = "(rrtk built with alloc but without std: Ptr and RcRefCell variants, the alloc-only to_dyn! definition) " + e["rule"][:300]
        engines.append(e)
    engines.append(c17_extra.downstream())
    engines.append(c17_extra.threads(tier))
    return engines


def c03_run(pid, tier):
    """std (tier bounds), true release, and the no_std + alloc build: `Time` and `Datum` are plain data
    types whose trait impls a change can make differ between std and no_std"""
    engines = default_run(pid, tier)
    common.build_many(["libm"])
    return config_run(pid, "libm", engines)


def c19_run(pid, tier):
    import c19_cfg
    return c19_cfg.run(pid, tier)


def c09_run(pid, tier):
    engines = default_run(pid, tier)
    if tier != "thorough":
        return engines
    import subprocess, os, json
    src = os.path.join(common.HARNESS, "sr_terminals")
    e = common.env_base()
    e.pop("RUSTFLAGS", None)
    e["CARGO_TARGET_DIR"] = os.path.join(common.TARGET, "sr")
    p = subprocess.run(["cargo", "build", "--release", "--offline"], cwd=src, env=e, stdout=subprocess.PIPE,
                       stderr=subprocess.STDOUT, text=True)
    if p.returncode != 0:
        raise Machinery("stateright cross-check does not build:\n" + p.stdout[-3000:])
    q = subprocess.run([os.path.join(common.TARGET, "sr", "release", "sr_terminals"), "7"], stdout=subprocess.PIPE,
                       stderr=subprocess.PIPE, text=True, timeout=1200)
    eng = common.mk_engine("c09-stateright-cross-check",
                           "the same link-state graph explored by an independent explicit-state engine (stateright 0.31 BFS, 8 threads): "
                           "state = observed link structure (hash/eq on it; a witness history rides along), next_state rebuilds real "
                           "terminals by replaying the history, applies one real connect/disconnect and observes; always-properties: no "
                           "panic / decodable reads, symmetric matching; the unique-state counts must equal the hand-rolled BFS's",
                           "n = 2..7")
    own = {}
    for en in engines:
        for k, v in en.get("extra", {}).items():
            if k.startswith("matchings_n"):
                own[int(k[len("matchings_n"):])] = v
    for line in q.stdout.splitlines():
        if not line.startswith("{"):
            continue
        r = json.loads(line)
        eng["states"] += r["unique_states"]
        eng["transitions"] += r["states_generated"]
        eng["executions"] += r["states_generated"]
        eng["distinct_nontrivial"] += r["states_generated"]
        eng["oracle_checks"] += 2 * r["unique_states"]
        eng["max_depth"] = max(eng["max_depth"], r["max_depth"])
        eng["extra"]["stateright_unique_states_n%d" % r["n"]] = r["unique_states"]
        for d in r["discoveries"]:
            eng["violations"].append(common.viol("terminals:stateright:" + d.split(":")[0].replace(" ", "-"), "n=%d %s" % (r["n"], d)))
        if not r["discoveries"] and own.get(r["n"]) not in (None, r["unique_states"]):
            raise Machinery("engines disagree on the number of reachable link states for n=%d: BFS %s, stateright %s" % (
                r["n"], own.get(r["n"]), r["unique_states"]))
    if not eng["states"]:
        raise Machinery("stateright cross-check produced no output: " + q.stderr[-2000:])
    eng["distinct_outcomes"] = eng["states"]
    eng["samples"] = ["n=6: 76 unique link states, 2737 generated (one per state x action + init)"]
    engines.append(eng)
    return engines


def dual_run(pid, tier):
    """engines in the default build and again with dimension checking compiled out (same keys:
    the property does not depend on the configuration, so neither does the verdict)"""
    engines = default_run(pid, tier)
    return config_run(pid, "std-nocheck", engines)


def spec(level, extra_assume=None, run=default_run):
    return {"level": level, "assumptions": COMMON_ASSUME + (extra_assume or []), "run": run}


TABLE = {
    "C19": spec("model_checking", [
        "configurations enumerated: {std, alloc+libm, alloc+micromath} x {dim_check_release, no dim_check feature}; the harness "
        "itself always links std, only rrtk's features vary",
        "power-function dependent sections (EWMA, exponent stream) are compared exactly between checked/unchecked builds of "
        "one back end, within 1e-5 of the scale between std and libm, and only structurally (categories, timestamps) against micromath, whose powf is a coarse approximation; each build also checks them "
        "against its own back end's powf (C12 oracle)",
        "the workloads are the enumerations listed in the rule, not arbitrary programs"], run=c19_run),
    "C17": spec("model_checking", [
        "thread clause: shuttle's scheduler is sequentially consistent and intercepts Mutex/RwLock operations, spawn/join and "
        "yield_now; weak-memory behaviour inside std's locks is std's responsibility; the property's '2..8 threads x 1e3..1e5 "
        "increments' stress framing is replaced by ALL schedules of 2-4 threads x 1-3 increments",
        "reference.rs is compiled unmodified (by #[path]) into a no_std crate whose `std` is a shim re-exporting shuttle::sync",
        "to_dyn! clause: rrtk itself is built with std; the calling crate's features named alloc/std are toggled"], run=c17_run),
    "C16": spec("model_checking", [
        "scratch-slot clause: decided with the rrtk_verif poison hook on (0x7F fill); thorough tier additionally runs the "
        "same cases with the hook off under Miri",
        "lifetime clause: 'all safe programs' is replaced by a generated family of probe programs (per accessor x "
        "{drop, move, drop-with-connected-partner} x {read, write}, raw-pointer API probes) with rustc's borrow checker as "
        "oracle; controls guard against vacuous probes"], run=c16_run),
    "C01": spec("exploration", [
        "unit exponents are read from the in-memory representation of Unit, whose layout (offset, width, sign per exponent) is "
        "learnt at start-up by probing Unit::new(m, s), so the oracle does not rely on the crate's own equality code (fallback "
        "if no layout explains the probes: the crate's == against Unit::new; the mode is recorded in the evidence notes)",
        "the table of 49 named constants is cross-checked against src/dimensions/constants.rs at run time; names are "
        "parsed by an independent INVERSE_/PER/SQUARED/CUBED grammar"]),
    "C14": spec("exploration", [
        "State::update judged against v+a*dt and p+v*dt+a*dt^2/2 computed in f64 with forward-error bound (bit-exact "
        "where every evaluation order is exact); dt = 0 compared as values (-0 == +0)"], run=dual_run),
    "C18": spec("exploration", [
        "conversion bounds are checked in exact integer arithmetic (i128) on the f32 bit pattern",
        "integer operators are only exercised on operand pairs that do not overflow i64"], run=dual_run),
    "C06": spec("model_checking", [
        "phase boundaries t1..t3 are read from the derived Debug output of MotionProfile and cross-checked by "
        "bisection on get_piece (public API)",
        "grid values only for states and limits; query instants as listed in the rule"], run=dual_run),
    "C07": spec("model_checking", [
        "tolerances: 8 x (f32 epsilon x magnitudes involved (peak speed, |a|*T, positions, speed*T) + 2 ns x rate), "
        "calibrated on the unchanged tree: worst observed error is below 8% of the 16x tolerance on 1.2e6 profiles",
        "mirror pairs negate the end acceleration as well (the physical mirror image)",
        "'comfortably feasible' = |dp| >= 1.05 (d_acc + d_dec) + 1e-3 (|p0|+|p1|) + 1e-6 with both speeds inside the limit"], run=dual_run),
    "C20": spec("model_checking", [
        "whether the inner settable is still updated after it rejected a set is not constrained",
        "the stand-alone CommandPID of the PID-wrapper oracle is the real one (validated by C11), fed through a "
        "ConstantGetter over a shared clock exactly like the wrapper's own wiring"], run=dual_run),
    "C08": spec("model_checking", [
        "step-local oracle: the states read at the device's terminals immediately before update() are taken as the "
        "measurements; projection computed in f64 with forward-error bound (exact where the arithmetic is dyadic)"], run=dual_run),
    "C13": spec("model_checking", [
        "ties (equal newest timestamps) accept any newest issued command, including one sitting in the own slot of "
        "the external terminal on that side",
        "mapped values may differ from value*ratio resp. value/ratio by 2 ulp"], run=dual_run),
    "C15": spec("model_checking", [
        "clock values and offsets stay far from i64 overflow (the property excludes overflowing combinations)",
        "the order in which GetterFromHistory::update updates history and time getter is not constrained"]),
    "C12": spec("model_checking", [
        "EWMA lambda is judged with the power function of the build under test called directly by the harness "
        "(plus the change a 2-ulp different dt would induce); the recursion is judged step-locally against the real previous output",
        "timestamps are non-decreasing as the property states; f32 and Quantity variants must agree within 2 ulp"], run=dual_run),
    "C10": spec("model_checking", [
        "reference sums/differences in f64 with running forward-error bound; bit equality only where certified exact",
        "intervals are judged as the crate computes them ((ns as f32)/1e9), so an interval such as 2.25 s, whose "
        "nanosecond count needs 25 bits, is not treated as exact"], run=dual_run),
    "C11": spec("model_checking", [
        "what get() returns between an input error and the next present sample when a different command is set in "
        "between is left open (error or absent both accepted)"]),
    "C04": spec("model_checking", [
        "reference PID computed in f64 with a running forward-error bound; bit equality is demanded only where a "
        "certificate shows every evaluation order to be exact in f32 (dyadic alphabet), otherwise 8x the bound",
        "the composed controller updates all its inner streams on every round (assembly by the harness after examples/pid.rs)"], run=dual_run),
    "C02": spec("model_checking", [
        "corners the documentation leaves open are accepted both ways: first operand absent with second erroring "
        "(difference/quotient/exponent), absent input with failing time getter (expirer), and/or timestamps "
        "(newest of all present inputs or newest of the deciding ones)"], run=dual_run),
    "C03": spec("model_checking", [
        "equal timestamps: any candidate that no other candidate is strictly newer than is accepted",
        "the table of Datum operator impls is cross-checked against a scan of /repo/src/datum.rs at run time"], run=c03_run),
    "C05": spec("model_checking", [
        "the per-stream reset policy table (which of absent/error is a reset, which streams ignore absent samples) is "
        "transcribed from the crate's documentation and property statement",
        "behaviour of freeze after an erroring or absent condition until the next false condition is left open"], run=dual_run),
    "C09": spec("model_checking", [
        "link structure is observed through the public getters only (own states are distinct powers of two so "
        "a mean identifies the partner exactly)"], run=c09_run),
}
