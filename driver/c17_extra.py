"""C17: to_dyn! from a downstream crate under four caller feature sets, and the thread clause
(exhaustive shuttle DFS over the real reference.rs)."""
import os, subprocess, json, re, concurrent.futures
import common
from common import Machinery, mk_engine, viol


def downstream():
    src = os.path.join(common.HARNESS, "downstream")
    eng = mk_engine("c17-to_dyn-downstream",
                    "a downstream crate (rrtk built with std) built under its four own feature sets {none, alloc, std, "
                    "alloc+std}; for every variant the macro lists (Ptr, RcRefCell, PtrRwLock): to_dyn! must return (no "
                    "unimplemented!() panic) and the trait-object Reference must alias the same object (write through one, "
                    "read through the other, both directions, plus a clone of the converted handle); non-trivial = caller "
                    "feature set that differs from rrtk's own",
                    "4 caller feature sets x 3 variants")
    e = common.env_base()
    e.pop("RUSTFLAGS", None)
    e["CARGO_TARGET_DIR"] = os.path.join(common.TARGET, "downstream")
    for name, feats in [("none", ""), ("alloc", "alloc"), ("std", "std"), ("alloc+std", "alloc,std")]:
        cmd = ["cargo", "run", "--release", "--offline", "--quiet"]
        if feats:
            cmd += ["--features", feats]
        p = subprocess.run(cmd, cwd=src, env=e, stdout=subprocess.PIPE, stderr=subprocess.PIPE, text=True)
        results = re.findall(r"^RESULT (\S+) (\S+)(.*)$", p.stdout, re.M)
        if p.returncode != 0 and not results:
            # a caller crate that does not even compile is as bad as one that panics
            eng["violations"].append(viol("to_dyn:caller-features-%s:does-not-compile" % name,
                                          "downstream crate with features [%s] failed to build/run: %s" % (feats, p.stderr[-1500:])))
            eng["executions"] += 1
            continue
        for var, status, rest in results:
            eng["executions"] += 1
            eng["states"] += 1
            eng["transitions"] += 6
            eng["oracle_checks"] += 1
            if name != "alloc+std":
                eng["distinct_nontrivial"] += 1
            if status != "ok":
                eng["violations"].append(viol("to_dyn:caller-features-%s:%s:%s" % (name, var, status),
                                              "caller crate with features [%s]: to_dyn! on a %s-backed Reference: %s%s" % (feats, var, status, rest)))
        if len(results) != 3:
            raise Machinery("downstream run produced %d results" % len(results))
    eng["distinct_outcomes"] = 1 if not eng["violations"] else 2
    eng["samples"] = ["caller features [] : to_dyn!(Val, rc_ref_cell_reference(..)) then write through the dyn handle, read through a clone of the original"]
    return eng


def threads(tier):
    src = os.path.join(common.HARNESS, "sched")
    e = common.env_base()
    e.pop("RUSTFLAGS", None)
    e["CARGO_TARGET_DIR"] = os.path.join(common.TARGET, "sched")
    p = subprocess.run(["cargo", "build", "--release", "--offline"], cwd=src, env=e, stdout=subprocess.PIPE,
                       stderr=subprocess.STDOUT, text=True)
    if p.returncode != 0:
        raise Machinery("scheduler harness does not build (reference.rs may need further crate-root names):\n" + p.stdout[-3000:])
    binary = os.path.join(common.TARGET, "sched", "release", "explore")
    jobs = subprocess.run([binary, "list", tier], stdout=subprocess.PIPE, text=True).stdout.split("\n")
    jobs = [j.split() for j in jobs if j.strip()]
    cap = 20_000_000 if tier == "thorough" else 5_000_000
    e2 = dict(e)
    e2["VERIF_SCHEDULE_CAP"] = str(cap)

    def one(job):
        try:
            q = subprocess.run([binary, "run", tier, job[0], job[1]], env=e2, stdout=subprocess.PIPE, stderr=subprocess.PIPE,
                               text=True, timeout=2400 if tier == "thorough" else 240)
        except subprocess.TimeoutExpired:
            return job, None, "timeout"
        line = [l for l in q.stdout.splitlines() if l.startswith("{")]
        if not line:
            return job, None, q.stderr[-2000:]
        return job, json.loads(line[-1]), q.stderr[-3000:]

    eng = mk_engine("c17-thread-schedules",
                    "shuttle DFS (no preemption bound) over harnesses in which every thread builds its own Reference over one "
                    "shared Arc<Mutex>, Arc<RwLock>, *const Mutex or *const RwLock and performs read-yield-write increments "
                    "inside borrow_mut() (a scheduling point inside the borrow makes a lost update observable), optionally "
                    "through a clone of its handle, optionally with a reader thread; the real src/reference.rs is compiled "
                    "unmodified against shuttle's Mutex/RwLock; oracle in every schedule: final counter = number of "
                    "increments, reader sees monotone values within range, no deadlock, no panic; non-trivial = every "
                    "schedule of a body with at least two writer threads",
                    "bodies x 4 variants; schedule cap %d per job" % cap)
    with concurrent.futures.ThreadPoolExecutor(max_workers=16) as ex:
        for job, res, err in ex.map(one, jobs):
            if res is None:
                raise Machinery("schedule exploration of %s failed: %s" % (job, err))
            eng["executions"] += res["schedules"]
            eng["states"] += res["schedules"]
            eng["transitions"] += res["schedules"]
            eng["distinct_nontrivial"] += res["schedules"]
            eng["oracle_checks"] += res["schedules"]
            eng["extra"]["schedules:%s:%s" % (res["body"], res["variant"])] = res["schedules"]
            if res["capped"]:
                eng["caps_hit"].append("%s/%s: stopped at the cap of %d schedules (not exhaustive for this body)" % (res["body"], res["variant"], cap))
                eng["exhaustive"] = False
            if res["status"] != "ok":
                sched = re.search(r'failing schedule:\s*"?\s*\n?\s*"?([0-9a-f]+)"?', err or "")
                eng["violations"].append(viol(
                    "threads:%s:%s" % (res["variant"], "deadlock" if "deadlock" in (res["message"] + (err or "")).lower() else "lost-update-or-panic"),
                    "body %s variant %s after %d schedules: %s ; replay: %s replay %s %s <schedule>%s" % (
                        res["body"], res["variant"], res["schedules"], res["message"][:600], binary, res["body"], res["variant"],
                        (" schedule=" + sched.group(1)) if sched else (" ; shuttle output: " + (err or "")[-700:]))))
    eng["distinct_outcomes"] = 1 if not eng["violations"] else 2
    eng["max_depth"] = 4
    eng["samples"] = ["2 threads x 2 increments over one Arc<RwLock<u32>>: all 4652 interleavings",
                      "2 threads x 1 increment + 1 reader over a leaked *const Mutex<u32>: all 657261 interleavings"]
    return eng
