"""C16 lifetime clause: a bounded family of *safe* probe programs with the compiler as oracle.

For each terminal accessor x {device dropped at the end of an inner block, device moved away}
x {read, write through the kept reference} one program is generated; the compiler accepting
it means a safe program obtains a reference that outlives its object. Each probe has a twin
control (same program without the drop/move) that must compile, and the family contains
positive controls that must be rejected by the borrow checker, so that "rejected" is known to
mean borrow-checker rejection and "accepted" is known not to be a vacuous probe.
Thorough tier: every accepted probe is executed under Miri, which must report the dangling use.
"""
import os, re, json, subprocess, shutil, time
import common
from common import Machinery, mk_engine, viol

PRELUDE = """#![allow(unused)]
use rrtk::*;
use rrtk::devices::*;
use rrtk::devices::wrappers::*;
use core::cell::RefCell;
struct Motor { d: SettableData<TerminalData, ()> }
impl Settable<TerminalData, ()> for Motor {
    fn impl_set(&mut self, _v: TerminalData) -> NothingOrError<()> { Ok(()) }
    fn get_settable_data_ref(&self) -> &SettableData<TerminalData, ()> { &self.d }
    fn get_settable_data_mut(&mut self) -> &mut SettableData<TerminalData, ()> { &mut self.d }
}
impl Updatable<()> for Motor { fn update(&mut self) -> NothingOrError<()> { Ok(()) } }
struct FMotor { d: SettableData<f32, ()> }
impl Settable<f32, ()> for FMotor {
    fn impl_set(&mut self, _v: f32) -> NothingOrError<()> { Ok(()) }
    fn get_settable_data_ref(&self) -> &SettableData<f32, ()> { &self.d }
    fn get_settable_data_mut(&mut self) -> &mut SettableData<f32, ()> { &mut self.d }
}
impl Updatable<()> for FMotor { fn update(&mut self) -> NothingOrError<()> { self.update_following_data() } }
struct Enc;
impl Getter<State, ()> for Enc { fn get(&self) -> Output<State, ()> { Ok(None) } }
impl Updatable<()> for Enc { fn update(&mut self) -> NothingOrError<()> { Ok(()) } }
fn kv() -> PositionDerivativeDependentPIDKValues {
    let k = PIDKValues::new(1.0, 0.0, 0.0);
    PositionDerivativeDependentPIDKValues::new(k, k, k)
}
fn read(t: &RefCell<Terminal<'_, ()>>) {
    let x: Option<Datum<State>> = <Terminal<()> as Settable<Datum<State>, ()>>::get_last_request(&t.borrow());
    println!("{:?}", x);
}
fn write(t: &RefCell<Terminal<'_, ()>>) {
    t.borrow_mut().set(Datum::new(Time(1), State::new_raw(1.0, 2.0, 3.0))).unwrap();
    read(t);
}
"""

# (Type, method, constructor expression, accessor call)
ACCESSORS = [
    ("Invert", "get_terminal_1", "Invert::<()>::new()", "get_terminal_1()"),
    ("Invert", "get_terminal_2", "Invert::<()>::new()", "get_terminal_2()"),
    ("GearTrain", "get_terminal_1", "GearTrain::<()>::with_ratio_raw(2.0)", "get_terminal_1()"),
    ("GearTrain", "get_terminal_2", "GearTrain::<()>::with_ratio_raw(2.0)", "get_terminal_2()"),
    ("Axle", "get_terminal", "Axle::<2, ()>::new()", "get_terminal(1)"),
    ("Differential", "get_side_1", "Differential::<()>::new()", "get_side_1()"),
    ("Differential", "get_side_2", "Differential::<()>::new()", "get_side_2()"),
    ("Differential", "get_sum", "Differential::<()>::new()", "get_sum()"),
    ("ActuatorWrapper", "get_terminal", "ActuatorWrapper::new(Motor { d: SettableData::new() })", "get_terminal()"),
    ("GetterStateDeviceWrapper", "get_terminal", "GetterStateDeviceWrapper::new(Enc)", "get_terminal()"),
    ("PIDWrapper", "get_terminal", "PIDWrapper::new(FMotor { d: SettableData::new() }, Time(0), State::default(), Command::Position(0.0), kv())", "get_terminal()"),
]


TYPES = {"Invert": "Invert<'a, ()>", "GearTrain": "GearTrain<'a, ()>", "Axle": "Axle<'a, 2, ()>",
         "Differential": "Differential<'a, ()>", "ActuatorWrapper": "ActuatorWrapper<'a, Motor, ()>",
         "GetterStateDeviceWrapper": "GetterStateDeviceWrapper<'a, Enc, ()>", "PIDWrapper": "PIDWrapper<'a, FMotor, ()>"}


def probe_programs():
    """name -> (source, expectation, key) ; expectation 'reject' / 'accept'"""
    progs = {}
    for (ty, meth, ctor, call) in ACCESSORS:
        base = "%s_%s" % (ty.lower(), meth)
        for use in ("read", "write"):
            # device dropped at the end of an inner block
            progs["%s_drop_%s" % (base, use)] = (
                PRELUDE + "fn main() {\n    let t = { let d = %s; d.%s };\n    %s(t);\n}\n" % (ctor, call, use),
                "reject", "lifetime:%s::%s:drop" % (ty, meth))
            # device moved out of the function that took the reference: the stack slot the
            # reference points into dies on return while the device lives on in a Box
            progs["%s_move_%s" % (base, use)] = (
                PRELUDE + "fn make<'a>() -> (Box<%s>, &'a RefCell<Terminal<'a, ()>>) {\n    let d = %s;\n    let t = d.%s;\n    (Box::new(d), t)\n}\nfn main() {\n    let (moved, t) = make();\n    %s(t);\n    drop(moved);\n}\n" % (TYPES[ty], ctor, call, use),
                "reject", "lifetime:%s::%s:move" % (ty, meth))
        # device dropped while a longer-lived terminal is still connected to its terminal
        progs["%s_drop_partner" % base] = (
            PRELUDE + "fn main() {\n    let t: RefCell<Terminal<'_, ()>> = Terminal::new();\n    { let d = %s; d.%s.borrow_mut().set(Datum::new(Time(1), State::new_raw(1.0, 2.0, 3.0))).unwrap(); connect(d.%s, &t); }\n    let s = <Terminal<()> as Getter<State, ()>>::get(&t.borrow());\n    println!(\"{:?}\", s);\n}\n" % (ctor, call, call),
            "reject", "lifetime:%s::%s:drop" % (ty, meth))
        progs["%s_move_control" % base] = (
            PRELUDE + "fn make<'a>() -> Box<%s> {\n    let d = %s;\n    Box::new(d)\n}\nfn main() {\n    let moved = make();\n    let t = moved.%s;\n    read(t);\n    write(t);\n    drop(moved);\n}\n" % (TYPES[ty], ctor, call),
            "accept", "probe-control:%s::%s:move" % (ty, meth))
        # twin control: same program, device kept alive -> must compile
        progs["%s_control" % base] = (
            PRELUDE + "fn main() {\n    let d = %s;\n    let t = d.%s;\n    read(t);\n    write(t);\n    drop(d);\n}\n" % (ctor, call),
            "accept", "probe-control:%s::%s" % (ty, meth))
    # raw-pointer constructors must need `unsafe`
    neg = {
        "reference_from_ptr_safe": "fn main() { let mut x = 5i32; let r = Reference::from_ptr(&mut x as *mut i32); println!(\"{}\", *r.borrow()); }",
        "reference_from_ptr_mutex_safe": "fn main() { let m = std::sync::Mutex::new(5i32); let r = Reference::from_ptr_mutex(&m as *const _); println!(\"{}\", *r.borrow()); }",
        "reference_from_ptr_rw_lock_safe": "fn main() { let m = std::sync::RwLock::new(5i32); let r = Reference::from_ptr_rw_lock(&m as *const _); println!(\"{}\", *r.borrow()); }",
        "reference_unsafe_borrow_safe": "fn main() { let r = rrtk::reference::ReferenceUnsafe::from_rc_ref_cell(std::rc::Rc::new(RefCell::new(5i32))); println!(\"{}\", *r.borrow()); }",
        "reference_private_field": "fn main() { let r = rc_ref_cell_reference(5i32); let inner = r.0; }",
        "reference_tuple_construct": "fn main() { let mut x = 5i32; let r = Reference(rrtk::reference::ReferenceUnsafe::Ptr(&mut x as *mut i32)); println!(\"{}\", *r.borrow()); }",
    }
    for k, body in neg.items():
        progs[k] = (PRELUDE + body + "\n", "reject", "lifetime:%s" % k.replace("_", "-"))
    # borrows constructible from a raw pointer in safe code
    progs["borrow_ptr_variant_constructible"] = (
        PRELUDE + "fn main() {\n    let b: rrtk::reference::Borrow<'static, i32> = { let x = 5i32; rrtk::reference::Borrow::Ptr(&x as *const i32, core::marker::PhantomData) };\n    println!(\"{}\", *b);\n}\n",
        "reject", "lifetime:Borrow::Ptr:constructible-in-safe-code")
    progs["borrowmut_ptr_variant_constructible"] = (
        PRELUDE + "fn main() {\n    let mut b: rrtk::reference::BorrowMut<'static, i32> = { let mut x = 5i32; rrtk::reference::BorrowMut::Ptr(&mut x as *mut i32, core::marker::PhantomData) };\n    *b = 6;\n    println!(\"{}\", *b);\n}\n",
        "reject", "lifetime:BorrowMut::Ptr:constructible-in-safe-code")
    # positive controls: the borrow checker must reject these (E0597 / E0505)
    progs["control_e0597"] = (
        PRELUDE + "fn main() {\n    let r;\n    { let x: RefCell<Terminal<'_, ()>> = Terminal::new(); r = &x; }\n    read(r);\n}\n",
        "control-reject:E0597", "probe-control:E0597")
    progs["control_e0505"] = (
        PRELUDE + "fn main() {\n    let x: RefCell<Terminal<'_, ()>> = Terminal::new();\n    let r = &x;\n    let moved = Box::new(x);\n    read(r);\n    drop(moved);\n}\n",
        "control-reject:E0505", "probe-control:E0505")
    progs["control_connect_outlives"] = (
        # a terminal connected to a shorter-lived terminal must be rejected by the lifetime on connect()
        PRELUDE + "fn main() {\n    let a: RefCell<Terminal<'_, ()>> = Terminal::new();\n    { let b: RefCell<Terminal<'_, ()>> = Terminal::new(); connect(&a, &b); }\n    read(&a);\n    let s = <Terminal<()> as Getter<State, ()>>::get(&a.borrow());\n    println!(\"{:?}\", s);\n}\n",
        "reject", "lifetime:connect:partner-dropped")
    return progs


def scan_accessors():
    """all functions in the device sources that return a terminal reference with the struct's lifetime"""
    found = []
    for path in ("/repo/src/devices.rs", "/repo/src/devices/wrappers.rs", "/repo/src/lib.rs"):
        if not os.path.exists(path):
            continue
        src = open(path).read()
        cur = None
        for line in src.splitlines():
            m = re.match(r"\s*impl<.*?>\s+(\w+)<", line)
            if m and " for " not in line:
                cur = m.group(1)
            m2 = re.search(r"pub fn (\w+)\(&self.*\)\s*->\s*&'a\s+RefCell<Terminal<'a,\s*E>>", line)
            if m2:
                found.append((cur, m2.group(1)))
    return found


def run(tier):
    tdir = os.path.join(common.TARGET, "lifeprobe")
    src = os.path.join(tdir, "crate")
    if os.path.exists(src):
        shutil.rmtree(src)
    os.makedirs(os.path.join(src, "src", "bin"))
    progs = probe_programs()
    with open(os.path.join(src, "Cargo.toml"), "w") as f:
        f.write('[package]\nname = "lifeprobe"\nversion = "0.0.0"\nedition = "2021"\n[workspace]\n[dependencies]\n'
                'rrtk = { path = "/repo", features = ["devices"] }\n')
    if os.path.exists("/repo/Cargo.lock"):
        shutil.copy("/repo/Cargo.lock", os.path.join(src, "Cargo.lock"))
    for name, (code, _, _) in progs.items():
        with open(os.path.join(src, "src", "bin", name + ".rs"), "w") as f:
            f.write(code)
    e = common.env_base()
    e.pop("RUSTFLAGS", None)  # the lifetime clause is about the crate as shipped: hooks off
    e["CARGO_TARGET_DIR"] = os.path.join(tdir, "target")
    p = subprocess.run(["cargo", "check", "--offline", "--bins", "--keep-going", "--message-format=json"],
                       cwd=src, env=e, stdout=subprocess.PIPE, stderr=subprocess.PIPE, text=True)
    errors = {n: [] for n in progs}
    built = set()
    lib_ok = False
    for line in p.stdout.splitlines():
        try:
            m = json.loads(line)
        except Exception:
            continue
        if m.get("reason") == "compiler-artifact" and m.get("target", {}).get("name") == "rrtk":
            lib_ok = True
        if m.get("reason") == "compiler-artifact" and "bin" in m.get("target", {}).get("kind", []):
            built.add(m["target"]["name"])
        if m.get("reason") == "compiler-message" and m["message"].get("level") == "error":
            name = m.get("target", {}).get("name")
            code = (m["message"].get("code") or {}).get("code") or "error"
            if name in errors:
                errors[name].append(code)
    if not lib_ok and not built:
        raise Machinery("lifeprobe: rrtk itself did not compile for the probes:\n" + p.stderr[-3000:])
    eng = mk_engine(
        "c16-lifetime-probes",
        "bounded family of safe programs, compiler as oracle: for each of the terminal accessors found in the device "
        "sources x {device dropped at the end of an inner block, device moved away} x {read, write through the kept "
        "reference} one generated program that must be REJECTED if no safe program may keep a reference beyond its "
        "object; raw-pointer constructors / private field / unsafe borrow used without `unsafe` must be rejected; "
        "twin controls (device kept alive) must compile; positive controls must be rejected with E0597 / E0505; the "
        "accessor table is cross-checked against a scan of src/devices*.rs; non-trivial = probe that exercises a "
        "drop/move (not a control)",
        "%d programs" % len(progs))
    groups = {}
    for name, (code, expect, key) in sorted(progs.items()):
        eng["executions"] += 1
        eng["states"] += 1
        eng["transitions"] += 1
        eng["oracle_checks"] += 1
        accepted = name in built and not errors[name]
        if expect == "reject":
            eng["distinct_nontrivial"] += 1
            if accepted:
                groups.setdefault(key, []).append(name)
        elif expect == "accept":
            if not accepted:
                raise Machinery("lifeprobe control %s does not compile (%s): the probe scaffolding is broken, "
                                "no verdict is drawn" % (name, errors[name]))
        else:
            want = expect.split(":")[1]
            if accepted or want not in errors[name]:
                raise Machinery("lifeprobe positive control %s was not rejected with %s (accepted=%s errors=%s)" % (
                    name, want, accepted, errors[name]))
    eng["distinct_outcomes"] = len(set((n in built, tuple(errors[n])) for n in progs))
    for key, names in sorted(groups.items()):
        eng["violations"].append(viol(key, "the compiler accepts the safe program(s) %s (see %s/src/bin/): a reference "
                                      "obtained without `unsafe` outlives the object it points to" % (", ".join(names), src), len(names)))
    # accessor scan
    scanned = scan_accessors()
    table = set((a[0], a[1]) for a in ACCESSORS)
    for (ty, meth) in scanned:
        if (ty, meth) not in table:
            eng["violations"].append(viol("lifetime:unlisted-accessor:%s::%s" % (ty, meth),
                                          "src has a new accessor %s::%s returning &'a RefCell<Terminal<'a, E>> that the probe table does not cover" % (ty, meth)))
    eng["extra"]["accessors_found_in_source"] = len(scanned)
    eng["extra"]["accessors_in_probe_table"] = len(table)
    eng["extra"]["programs_accepted_by_compiler"] = len([n for n in progs if n in built and not errors[n]])
    eng["extra"]["programs_rejected_by_compiler"] = len([n for n in progs if not (n in built and not errors[n])])
    eng["samples"] = ["invert_get_terminal_1_drop_read: `let t = { let d = Invert::<()>::new(); d.get_terminal_1() }; read(t);` -> "
                      + ("accepted by the compiler" if "invert_get_terminal_1_drop_read" in built else "rejected: %s" % errors["invert_get_terminal_1_drop_read"]),
                      "reference_from_ptr_safe -> " + ("accepted" if "reference_from_ptr_safe" in built and not errors["reference_from_ptr_safe"] else "rejected: %s" % errors["reference_from_ptr_safe"])]
    engines = [eng]
    if tier == "thorough":
        engines.append(miri_accepted(src, [n for n, (c, ex, k) in progs.items() if ex == "reject" and n in built and not errors[n]], e))
    return engines


def miri_accepted(src, names, env):
    eng = mk_engine("c16-miri-on-accepted-probes",
                    "every probe program the compiler accepted is executed under `cargo +nightly miri run`: Miri must "
                    "report undefined behaviour (dangling reference / use after free), confirming that acceptance is a "
                    "real soundness hole and not a harmless over-approximation of the probe",
                    "%d programs" % len(names))
    env = dict(env)
    env["MIRIFLAGS"] = "-Zmiri-disable-isolation"
    env["CARGO_TARGET_DIR"] = os.path.join(os.path.dirname(src), "target-miri")
    for n in sorted(names):
        if not n.endswith("_read") and not n.endswith("constructible"):
            continue  # one execution per accessor and way is enough for confirmation
        try:
            p = subprocess.run(["cargo", "+nightly", "miri", "run", "--offline", "--bin", n], cwd=src, env=env,
                               stdout=subprocess.PIPE, stderr=subprocess.PIPE, text=True, timeout=600)
        except subprocess.TimeoutExpired:
            eng["caps_hit"].append("miri timed out on %s" % n)
            eng["exhaustive"] = False
            continue
        eng["executions"] += 1
        eng["states"] += 1
        eng["transitions"] += 1
        ub = "Undefined Behavior" in p.stderr
        eng["extra"][("miri_ub_" if ub else "miri_clean_") + n] = 1
        if ub:
            eng["distinct_nontrivial"] += 1
    eng["distinct_outcomes"] = 2 if any(k.startswith("miri_clean_") for k in eng["extra"]) and any(k.startswith("miri_ub_") for k in eng["extra"]) else 1
    eng["samples"] = ["%s: %s" % (k[8:] if k.startswith("miri_ub_") else k[11:], "UB reported" if k.startswith("miri_ub_") else "no UB reported") for k in sorted(eng["extra"])][:6] or ["no accepted probes"]
    return eng
