#!/bin/bash
# sync_isolated_copy.sh <dir> : make (or refresh) an isolated copy of /verif and /repo under <dir> with absolute paths rewritten, so that seeded changes can be applied and checked (tools/matrix_rows.sh) without touching /repo itself. Remove <dir> when done.
set -e
M=$1
mkdir -p $M
rsync -a --delete --exclude target --exclude .git --exclude replays --exclude evidence /verif/ $M/verif/
mkdir -p $M/verif/evidence $M/verif/replays
if [ ! -d $M/repo/.git ]; then rm -rf $M/repo; git clone -q /repo $M/repo; fi
git -C $M/repo checkout -q -- . ; git -C $M/repo clean -fdq -e Cargo.lock -e target
git -C $M/repo fetch -q origin; git -C $M/repo reset -q --hard $(git -C /repo rev-parse HEAD)
[ -f /repo/Cargo.lock ] && cp /repo/Cargo.lock $M/repo/Cargo.lock
grep -rlE '/repo|/verif' $M/verif --include='*.py' --include='*.sh' --include='*.rs' --include='*.toml' --include='check' --include='*.json' -s | grep -v '/seeded/' | while read f; do
  sed -i -e "s#/repo#$M/repo#g; s#/verif#$M/verif#g" "$f"
done
echo synced $M
