#!/bin/bash
# validate_refactor.sh <ID> : confirm that a behaviour-preserving refactoring from a sub-agent passes the repository's
# suites in a scratch worktree and keep it under /verif/seeded/R-<ID>/ (patch.diff, check.rs, meta.json)
ID=$1
SRC=${SRC_ROOT:-/tmp/wt8}/$ID/_out/R
W=/tmp/valR_$ID
export CARGO_NET_OFFLINE=true CARGO_TARGET_DIR=$W/target
rm -rf $W; git -C /repo worktree prune; git -C /repo worktree add -q --detach $W HEAD || exit 2
cd $W
git apply $SRC/patch.diff || { echo "PATCH DOES NOT APPLY"; cd /; git -C /repo worktree remove --force $W; exit 1; }
s1=$(cargo test --workspace --no-fail-fast --offline 2>&1 | grep -E "^test result" | awk '{p+=$4; f+=$6} END {print p" passed "f" failed"}')
s2=$(cargo test --no-fail-fast --offline --features devices 2>&1 | grep -E "^test result" | awk '{p+=$4; f+=$6} END {print p" passed "f" failed"}')
b=$(cargo build --offline --no-default-features --features alloc,libm,devices 2>&1 | grep -cE "^error")
cd /; git -C /repo worktree remove --force $W; rm -rf $W
echo "suite(default): $s1"; echo "suite(devices): $s2"; echo "no_std build errors: $b"
if [[ "$s1" == "147 passed 0 failed" && "$s2" == "162 passed 0 failed" && "$b" == 0 ]]; then
  D=/verif/seeded/R-$ID; mkdir -p $D; cp $SRC/patch.diff $SRC/meta.json $D/; cp $SRC/check.rs $D/ 2>/dev/null
  echo "KEPT $D"
else echo "REJECTED R-$ID"; fi
