#!/bin/bash
# seed_matrix.sh : apply every seeded change to /repo in turn, run all quick checks, undo it; writes seeded/MATRIX.tsv
cd /verif
OUT=/verif/seeded/MATRIX.tsv
IDS="C01 C02 C03 C04 C05 C06 C07 C08 C09 C10 C11 C12 C13 C14 C15 C16 C17 C18 C19 C20"
echo -e "seed\t$(echo $IDS | tr ' ' '\t')" > $OUT
for d in seeded/C*-*/; do
  s=$(basename $d)
  git -C /repo checkout -- . ; git -C /repo apply /verif/${d}patch.diff || { echo "$s cannot apply" >> $OUT; continue; }
  row="$s"
  for id in $IDS; do
    out=$(./check $id --tier quick 2>&1); rc=$?
    if [ $rc = 0 ]; then row="$row\t."; elif [ $rc = 1 ]; then n=$(echo "$out" | grep -c "^VIOLATION"); row="$row\tV$n"; else row="$row\tM"; fi
  done
  echo -e "$row" >> $OUT
  git -C /repo checkout -- .
done
git -C /repo status --short >> $OUT
echo DONE >> $OUT
