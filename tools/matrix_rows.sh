#!/bin/bash
# matrix_rows.sh <isolated-copy-dir> <out.tsv> <row>... : a row is <patch-path-relative-to-/verif>=<ID>[,<ID>...]
# For each row: apply the patch to the copy's repo, run the listed quick checks, record exit status
# and the reported keys, revert. Run only inside an isolated copy made by a sync script (paths rewritten).
M=$1; OUT=$2; shift 2
for row in "$@"; do
  P=${row%%=*}; IDS=${row#*=}
  git -C $M/repo checkout -q -- .
  git -C $M/repo apply /verif/$P || { echo -e "$P\t-\tAPPLY-FAILED\t" >> $OUT; continue; }
  cd $M/verif
  for id in ${IDS//,/ }; do
    out=$(./check $id --tier quick 2>&1); rc=$?
    keys=$(echo "$out" | grep -E "^  key=" | sed 's/^  key=\([^ ]*\).*/\1/' | head -3 | tr '\n' ' ')
    mach=$(echo "$out" | grep -E "^MACHINERY" | head -1 | cut -c1-120)
    echo -e "$P\t$id\t$rc\t$keys$mach" >> $OUT
  done
  git -C $M/repo checkout -q -- .
done
echo -e "DONE\t\t\t" >> $OUT
