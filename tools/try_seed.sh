#!/bin/bash
# try_seed.sh <seed-dir-name> <ID> [ID...] : apply a seeded change to /repo, run the quick checks, undo it.
S=/verif/seeded/$1; shift
cd /verif
git -C /repo apply $S/patch.diff || { echo "cannot apply"; exit 2; }
for id in "$@"; do
  ./check $id --tier ${TIER:-quick} 2>&1 | grep -E "^(VIOLATION|KNOWN|OK|FAIL|MACHINERY|  key)" | head -${LINES_MAX:-12}
done
git -C /repo checkout -- .
git -C /repo status --short
