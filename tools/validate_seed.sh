#!/bin/bash
# validate_seed.sh <ID> <X> : confirm a seeded change in a scratch worktree and keep it under /verif/seeded/<ID>-<X>/
# (suite passes with the change; demo fails with it and passes without). Removes the worktree afterwards.
ID=$1; X=$2
SRC=${SRC_ROOT:-/tmp/wt}/$ID/_out/$X
W=/tmp/val_${ID}_$X
export CARGO_NET_OFFLINE=true CARGO_TARGET_DIR=$W/target
set -u
rm -rf $W; git -C /repo worktree prune; git -C /repo worktree add -q --detach $W HEAD || exit 2
cd $W
res=()
git apply $SRC/patch.diff || { echo "PATCH DOES NOT APPLY"; git -C /repo worktree remove --force $W; exit 1; }
s1=$(cargo test --workspace --no-fail-fast --offline 2>&1 | grep -E "^test result" | awk '{p+=$4; f+=$6} END {print p" passed "f" failed"}')
s2=$(cargo test --no-fail-fast --offline --features devices 2>&1 | grep -E "^test result" | awk '{p+=$4; f+=$6} END {print p" passed "f" failed"}')
cp $SRC/demo.rs tests/zz_demo.rs
d1=$(cargo test --offline ${DEMO_FLAGS:---features devices} --test zz_demo 2>&1 | grep -E "^test result|error(\[|:)" | head -3 | tr '\n' ' ')
git apply -R $SRC/patch.diff
d2=$(cargo test --offline ${DEMO_FLAGS:---features devices} --test zz_demo 2>&1 | grep -E "^test result|error(\[|:)" | head -3 | tr '\n' ' ')
cd /
git -C /repo worktree remove --force $W; rm -rf $W
echo "suite(default): $s1"
echo "suite(devices): $s2"
echo "demo with change: $d1"
echo "demo without change: $d2"
ok=1
[[ "$s1" == *" 0 failed" ]] || ok=0
[[ "$s2" == *" 0 failed" ]] || ok=0
[[ "$d1" == *"FAILED"* ]] || ok=0
[[ "$d2" == *"ok."* && "$d2" != *"FAILED"* ]] || ok=0
if [ $ok = 1 ]; then
  D=/verif/seeded/$ID-$X; mkdir -p $D
  cp $SRC/patch.diff $SRC/demo.rs $D/
  python3 - "$SRC/meta.json" "$D/meta.json" "$s1" "$s2" "$d1" "$d2" <<'PY'
import json,sys
src,dst,s1,s2,d1,d2=sys.argv[1:]
try: m=json.load(open(src))
except Exception as e: m={"note":"agent meta.json unreadable: %s"%e}
m["confirmed_by_harness_author"]={"base_commit":"HEAD of /repo at validation","suite_default_with_change":s1,"suite_devices_with_change":s2,"demo_with_change":d1,"demo_without_change":d2,
 "commands":["git apply patch.diff","cargo test --workspace --no-fail-fast --offline","cargo test --no-fail-fast --offline --features devices","cargo test --offline ${DEMO_FLAGS:---features devices} --test zz_demo","git apply -R patch.diff","cargo test --offline ${DEMO_FLAGS:---features devices} --test zz_demo"]}
json.dump(m,open(dst,"w"),indent=1)
PY
  echo "KEPT $D"
else
  echo "REJECTED $ID-$X"
fi
