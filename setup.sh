#!/bin/bash
# Build the framework offline from files on disk only.
set -e
cd "$(dirname "$0")"
export CARGO_NET_OFFLINE=true
python3 driver/setup_build.py
